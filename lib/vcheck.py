#!/usr/bin/env python3
"""Orchestrator for the TLA+ model-based checks of gittuf.

    check <property-id> quick|thorough

Per property: (1) TLC model-checks the family's bounded configuration (Layer I
with no deviations must refine Layer D) and emits scenarios; (2) the Go harness,
rebuilt from /repo's working tree with `-tags verif`, replays them against the
real code and records NDJSON traces; (3) TLC validates the traces against the
specification (Trace_*.tla), classifying every observation as conform / known
deviation / model divergence (safe) / violation.  Exit 0: property held on all
explored; exit 1: VIOLATION line; exit 2: infrastructure problem (never a
verdict about gittuf).
"""
import collections
import json
import os
import random
import re
import shutil
import subprocess
import sys
import tempfile
import time

VERIF = os.path.dirname(os.path.dirname(os.path.abspath(__file__)))
SPEC = os.path.join(VERIF, "spec")
HARNESS = os.path.join(VERIF, "harness")
GOROOT_BIN = "/root/go/pkg/mod/golang.org/toolchain@v0.0.1-go1.26.0.linux-amd64/bin"
NCPU = os.cpu_count() or 4


class Infra(Exception):
    """Infrastructure failure: exit 2, never a verdict."""


def goenv():
    env = dict(os.environ)
    env["PATH"] = GOROOT_BIN + ":" + env.get("PATH", "")
    env.update(GOTOOLCHAIN="local", GOFLAGS="-mod=mod", GOPROXY="off", GOSUMDB="off")
    return env


class Ctx:
    def __init__(self, pid, tier):
        self.pid = pid
        self.tier = tier
        self.seed = int(os.environ.get("VERIF_SEED", "1") or "1")
        self.t0 = time.time()
        self.scratch = tempfile.mkdtemp(prefix="verif-%s-" % pid)
        self.vh = None
        self.notes = []
        self.tlc_runs = []
        self.states = 0
        self.transitions = 0
        self.coverage_extra = {}

    def quick(self):
        return self.tier != "thorough"

    def cleanup(self):
        shutil.rmtree(self.scratch, ignore_errors=True)

    def note(self, msg):
        self.notes.append(msg)
        print("NOTE: " + msg, flush=True)

    def sub(self, name):
        d = os.path.join(self.scratch, name)
        os.makedirs(d, exist_ok=True)
        return d


def build_harness(ctx, tags="verif"):
    """Rebuild the harness against /repo's current working tree."""
    if ctx.vh:
        return ctx.vh
    shutil.copy("/repo/go.sum", os.path.join(HARNESS, "go.sum"))
    out = os.path.join(ctx.scratch, "vh")
    t = time.time()
    p = subprocess.run(["go", "build", "-tags", tags, "-o", out, "./cmd/vh"], cwd=HARNESS, env=goenv(),
                       stdout=subprocess.PIPE, stderr=subprocess.STDOUT, text=True)
    if p.returncode != 0:
        raise Infra("harness build failed:\n" + p.stdout[-4000:])
    ctx.coverage_extra["harness_build_s"] = round(time.time() - t, 1)
    ctx.vh = out
    return out


def run_vh(ctx, args, timeout=3600, cwd=None, check=True):
    vh = build_harness(ctx)
    p = subprocess.run([vh] + [str(a) for a in args], cwd=cwd or ctx.scratch, env=goenv(),
                       stdout=subprocess.PIPE, stderr=subprocess.STDOUT, text=True, timeout=timeout)
    if check and p.returncode != 0:
        raise Infra("harness %s failed (exit %d):\n%s" % (args[0], p.returncode, p.stdout[-4000:]))
    return p


# ---------------------------------------------------------------------------
# TLC

def tla_value(v):
    if isinstance(v, bool):
        return "TRUE" if v else "FALSE"
    if isinstance(v, int):
        return str(v)
    if isinstance(v, str):
        return v  # already TLA syntax (e.g. a quoted string or model value)
    if isinstance(v, (set, frozenset, list, tuple)):
        return "{" + ", ".join('"%s"' % x if isinstance(x, str) else tla_value(x) for x in sorted(v)) + "}"
    raise ValueError(v)


def write_cfg(path, spec="Spec", constants=None, invariants=(), constraints=(), properties=(), view=None,
              action_constraints=(), postcondition=None, init=None, nxt=None, overrides=None):
    lines = []
    if init:
        lines += ["INIT " + init, "NEXT " + nxt]
    else:
        lines.append("SPECIFICATION " + spec)
    if constants:
        lines.append("CONSTANTS")
        for k, v in constants.items():
            lines.append("  %s = %s" % (k, tla_value(v)))
    if overrides:
        if not constants:
            lines.append("CONSTANTS")
        for k, v in overrides.items():
            lines.append("  %s <- %s" % (k, v))
    for i in invariants:
        lines.append("INVARIANT " + i)
    for c in constraints:
        lines.append("CONSTRAINT " + c)
    for c in action_constraints:
        lines.append("ACTION_CONSTRAINT " + c)
    for p in properties:
        lines.append("PROPERTY " + p)
    if view:
        lines.append("VIEW " + view)
    if postcondition:
        lines.append("POSTCONDITION " + postcondition)
    lines.append("CHECK_DEADLOCK FALSE")
    with open(path, "w") as f:
        f.write("\n".join(lines) + "\n")


class TLCResult:
    def __init__(self):
        self.generated = 0
        self.distinct = 0
        self.depth = 0
        self.records = []      # parsed JSON records printed with PrintT(ToJson(..))
        self.violated = None   # name of violated invariant / property
        self.error = None      # any other TLC error text
        self.out_path = None
        self.wall = 0.0


_STAT = re.compile(r"^(\d+) states generated, (\d+) distinct states found")
_DEPTH = re.compile(r"depth of the complete state graph search is (\d+)")


def run_tlc(ctx, module, cfg_kwargs, workers=None, extra=(), timeout=3600, workdir=None, files=(),
            want_records=True, sim=None, heap=None, cpus=None):
    """Run TLC on spec/<module>.tla in a scratch copy. files: extra (name, path) to copy in."""
    wd = workdir or tempfile.mkdtemp(prefix="tlc-", dir=ctx.scratch)
    for f in os.listdir(SPEC):
        if f.endswith(".tla"):
            shutil.copy(os.path.join(SPEC, f), wd)
    for name, src in files:
        if os.path.abspath(src) != os.path.abspath(os.path.join(wd, name)):
            shutil.copy(src, os.path.join(wd, name))
    cfg = os.path.join(wd, module + ".cfg")
    write_cfg(cfg, **cfg_kwargs)
    cmd = ["tlc", "-workers", str(workers or NCPU), "-metadir", os.path.join(wd, "meta"), "-config", module + ".cfg"]
    if sim:
        cmd += ["-simulate", sim]
    cmd += list(extra) + [module + ".tla"]
    env = dict(os.environ)
    jopts = env.get("JAVA_TOOL_OPTIONS", "")
    if "-Xss" not in jopts:
        jopts += " -Xss256m"
    if heap:
        jopts += " -Xmx" + heap
    if cpus:
        jopts += " -XX:ActiveProcessorCount=%d" % cpus
    env["JAVA_TOOL_OPTIONS"] = jopts.strip()
    res = TLCResult()
    res.out_path = os.path.join(wd, "tlc.out")
    t = time.time()
    with open(res.out_path, "w") as out:
        try:
            p = subprocess.run(cmd, cwd=wd, env=env, stdout=out, stderr=subprocess.STDOUT, timeout=timeout)
        except subprocess.TimeoutExpired:
            subprocess.run(["pkill", "-f", "tlc2.TL[C]"], check=False)
            raise Infra("TLC timed out on %s after %ds" % (module, timeout))
    res.wall = time.time() - t
    err_lines = []
    with open(res.out_path, errors="replace") as f:
        for line in f:
            if line.startswith('"{') and want_records:
                try:
                    res.records.append(json.loads(json.loads(line)))
                except Exception:
                    err_lines.append("unparsable record: " + line[:200])
                continue
            m = _STAT.match(line)
            if m:
                res.generated, res.distinct = int(m.group(1)), int(m.group(2))
                continue
            m = _DEPTH.search(line)
            if m:
                res.depth = int(m.group(1))
            if line.startswith("Error: Invariant "):
                res.violated = line.split()[2]
            elif line.startswith("Error: Action property ") or line.startswith("Error: Temporal properties"):
                res.violated = line.strip()
            elif line.startswith("Error:") and "behavior up to this point" not in line and not res.violated:
                err_lines.append(line.strip())
    if err_lines and not res.violated:
        res.error = "\n".join(err_lines[:10])
    if p.returncode != 0 and not res.violated and not res.error:
        res.error = "tlc exit %d" % p.returncode
    ctx.tlc_runs.append({"module": module, "generated": res.generated, "distinct": res.distinct,
                         "depth": res.depth, "wall_s": round(res.wall, 1), "sim": sim or "",
                         "violated": res.violated or ""})
    return res


def model_check(ctx, module, cfg_kwargs, count=True, **kw):
    """Model-check; failure of the ideal model is a spec error (exit 2)."""
    r = run_tlc(ctx, module, cfg_kwargs, **kw)
    if r.violated:
        raise Infra("specification error: %s violated in %s with Dev={} (see %s)" % (r.violated, module, r.out_path))
    if r.error:
        raise Infra("TLC error in %s: %s" % (module, r.error))
    if count:
        ctx.states += r.distinct
        ctx.transitions += r.generated
    return r


def write_ndjson(path, records):
    with open(path, "w") as f:
        for r in records:
            f.write(json.dumps(r, separators=(",", ":")) + "\n")


def read_ndjson(path):
    out = []
    with open(path) as f:
        for line in f:
            line = line.strip()
            if line:
                out.append(json.loads(line))
    return out


def validate_trace(ctx, trace_module, trace_path, constants, shards=None, timeout=3600, extra_cfg=None, files=()):
    """Split the trace into shards and validate each with its own TLC (workers=1). Returns CLS records."""
    with open(trace_path) as f:
        lines = [l for l in f if l.strip()]
    if not lines:
        raise Infra("empty trace %s (dead driver)" % trace_path)
    shards = max(1, min(shards or NCPU, len(lines)))
    per = (len(lines) + shards - 1) // shards
    procs = []
    import concurrent.futures as cf

    def one(k):
        chunk = lines[k * per:(k + 1) * per]
        if not chunk:
            return []
        wd = tempfile.mkdtemp(prefix="trace-%d-" % k, dir=ctx.scratch)
        with open(os.path.join(wd, "trace.ndjson"), "w") as f:
            f.writelines(chunk)
        kw = dict(constants=constants)
        if extra_cfg:
            kw.update(extra_cfg)
        r = run_tlc(ctx, trace_module, kw, workers=1, workdir=wd, timeout=timeout, heap="3g", cpus=2, files=files)
        if r.violated or r.error:
            raise Infra("trace validation failed in %s: %s (see %s)" % (trace_module, r.violated or r.error, r.out_path))
        cls = [x for x in r.records if x.get("t") == "CLS"]
        if len(cls) != len(chunk):
            raise Infra("trace spec consumed %d of %d lines (see %s)" % (len(cls), len(chunk), r.out_path))
        return cls

    out = []
    with cf.ThreadPoolExecutor(max_workers=shards) as ex:
        for cls in ex.map(one, range(shards)):
            out.extend(cls)
    # these validation runs are bookkeeping, not model states
    return out


# ---------------------------------------------------------------------------
# known findings, verdicts, evidence

def load_known(pid):
    path = os.path.join(VERIF, "known_findings.jsonl")
    known, fixed = [], []
    if os.path.exists(path):
        for r in read_ndjson(path):
            if r.get("property") != pid:
                continue
            (fixed if r.get("fixed") else known).append(r)
    return known, fixed


class Tally:
    """Collects classified observations of one check run."""

    def __init__(self, ctx):
        self.ctx = ctx
        self.counts = collections.Counter()
        self.known_hits = collections.defaultdict(list)   # deviation -> sample observations
        self.known_sets = collections.defaultdict(list)   # sorted deviation tuple -> sample observations
        self.violations = []
        self.safe = []
        self.samples = []
        self.evaluations = 0
        self.nontrivial = set()

    def add(self, cls, item, dev=None, nontrivial_key=None):
        self.evaluations += 1
        if nontrivial_key is not None:
            self.nontrivial.add(nontrivial_key)
        if cls == "conform":
            self.counts["conform"] += 1
        elif cls == "known":
            key = ",".join(sorted(dev or []))
            self.counts["known:" + key] += 1
            if len(self.known_sets[tuple(sorted(dev or []))]) < 3:
                self.known_sets[tuple(sorted(dev or []))].append(item)
            for d in dev or []:
                if len(self.known_hits[d]) < 3:
                    self.known_hits[d].append(item)
        elif cls == "safe":
            self.counts["divergent-safe"] += 1
            if len(self.safe) < 20:
                self.safe.append(item)
        else:
            self.counts["violation"] += 1
            if len(self.violations) < 50:
                self.violations.append(item)

    def add_many(self, cls, n):
        self.evaluations += n
        self.counts[cls] += n


def finish(ctx, tally, level_text_extra=None, samples=None, traces=0, assumptions=None, exhaustive=False):
    pid = ctx.pid
    known, fixed = load_known(pid)
    rc = 0
    for k in known:
        devs = k.get("deviations") or [k.get("deviation")]
        if any(d in tally.known_hits for d in devs):
            print("KNOWN-FINDING: property=%s %s [%s]" % (pid, k.get("what", ""), k.get("id", "")), flush=True)
        else:
            # listed, but this run's sample did not reproduce it (the line is still printed: the finding stands until repaired)
            print("KNOWN-FINDING: property=%s %s [%s] (not reproduced by this run's sample)" % (pid, k.get("what", ""), k.get("id", "")),
                  flush=True)
    listed = set()
    for k in known:
        for d in (k.get("deviations") or [k.get("deviation")]):
            listed.add(d)
    for key, items in tally.known_sets.items():
        if not (set(key) & listed):
            # explained only by deviations that are not listed findings of this property: a violation
            for item in items:
                tally.violations.append({"unlisted_deviations": list(key), "item": item})
            tally.counts["violation"] += tally.counts.pop("known:" + ",".join(key), 0)
    if tally.safe:
        print("NOTE: %d observation(s) differ from the model but satisfy the property (model divergence, no alarm); first: %s"
              % (tally.counts["divergent-safe"], json.dumps(tally.safe[0])[:400]), flush=True)
    if tally.violations:
        rdir = os.path.join(VERIF, "replays", pid)
        os.makedirs(rdir, exist_ok=True)
        for i, v in enumerate(tally.violations[:10]):
            path = os.path.join(rdir, "violation-%s-seed%d-%d.json" % (ctx.tier, ctx.seed, i + 1))
            with open(path, "w") as f:
                json.dump({"property": pid, "tier": ctx.tier, "seed": ctx.seed, "observation": v,
                           "rerun": "VERIF_SEED=%d bin/check %s %s" % (ctx.seed, pid, ctx.tier)}, f, indent=1)
            print("VIOLATION property=%s replay=%s" % (pid, path), flush=True)
        rc = 1
    cov = {
        "states": ctx.states,
        "transitions": ctx.transitions,
        "traces_validated_against_impl": traces,
        "samples": (samples or tally.samples or [{"note": "no sample recorded"}])[:5],
        "evaluations": tally.evaluations,
        "distinct_nontrivial": len(tally.nontrivial),
        "rule": "observations of the real code judged by TLC against the specification; non-trivial = distinct scenario keys",
        "classification": dict(tally.counts),
        "known_deviations_reproduced": sorted(tally.known_hits.keys()),
        "tlc_runs": ctx.tlc_runs,
        "exhaustive": bool(exhaustive),
        "notes": ctx.notes[:20],
    }
    cov.update(ctx.coverage_extra)
    if level_text_extra:
        cov["explanation"] = level_text_extra
    ev = {
        "property_id": pid,
        "tier": "thorough" if ctx.tier == "thorough" else "quick",
        "seed": ctx.seed,
        "level": "model_checking",
        "coverage": cov,
        "assumptions": assumptions or [],
        "wall_s": round(time.time() - ctx.t0, 1),
        "violations": int(tally.counts["violation"]),
    }
    os.makedirs(os.path.join(VERIF, "evidence"), exist_ok=True)
    with open(os.path.join(VERIF, "evidence", pid + ".json"), "w") as f:
        json.dump(ev, f, indent=1)
    print("%s %s seed=%d: %s  states=%d traces=%d wall=%.0fs" % (pid, ctx.tier, ctx.seed, dict(tally.counts), ctx.states,
                                                               traces, time.time() - ctx.t0), flush=True)
    return rc


def main():
    if len(sys.argv) < 3:
        print(__doc__)
        return 2
    pid, tier = sys.argv[1], sys.argv[2]
    tier = os.environ.get("VERIF_TIER", tier) or tier
    sys.path.insert(0, os.path.join(VERIF, "lib"))
    import families
    fn = families.CHECKS.get(pid)
    if fn is None:
        print("unknown property " + pid)
        return 2
    ctx = Ctx(pid, tier)
    try:
        return fn(ctx)
    except subprocess.TimeoutExpired as e:
        print("INFRA: timeout %s" % e, flush=True)
        return 2
    except Exception as e:      # noqa: BLE001 -- anything that is not a verdict is an infrastructure problem (exit 2), never exit 1
        # (families imports this file as module `vcheck`, so its Infra is a different class object from __main__.Infra)
        if type(e).__name__ != "Infra":
            import traceback
            traceback.print_exc()
        print("INFRA: %s" % e, flush=True)
        return 2
    finally:
        if not os.environ.get("VERIF_KEEP"):
            ctx.cleanup()
        else:
            print("scratch kept at", ctx.scratch)


if __name__ == "__main__":
    sys.exit(main())
