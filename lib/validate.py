#!/usr/bin/env python3
"""Validates MANIFEST.json and evidence/*.json against the schemas (run with python3-vt)."""
import glob
import json
import sys

import jsonschema

ok = True
jsonschema.validate(json.load(open('/verif/MANIFEST.json')), json.load(open('/root/.vp/MANIFEST.schema.json')))
sch = json.load(open('/root/.vp/EVIDENCE.schema.json'))
for f in sorted(glob.glob('/verif/evidence/*.json')):
    try:
        jsonschema.validate(json.load(open(f)), sch)
    except Exception as e:  # noqa
        ok = False
        print("INVALID", f, str(e)[:300])
print("valid" if ok else "INVALID")
sys.exit(0 if ok else 1)
