"""Per-property check definitions (see vcheck.py for the shared machinery)."""
import json
import os

from vcheck import (Infra, Tally, build_harness, finish, load_known, model_check, read_ndjson, run_tlc, run_vh,
                    validate_trace, write_ndjson)


def devsets(pid):
    known, _ = load_known(pid)
    devs = set()
    for k in known:
        for d in (k.get("deviations") or [k.get("deviation")]):
            devs.add(d)
    return devs


def other_items(rec):
    o = rec.get("other", [])
    return list(o.values()) if isinstance(o, dict) else list(o)


# ---------------------------------------------------------------------------
# C04  RSL queries match a plain scan of the chain and fail closed on tampering

def c04(ctx):
    quick = ctx.quick()
    maxlen = 3 if quick else 4
    nq = 60 if quick else 250
    mc = model_check(ctx, "MC_RSLQuery", dict(
        constants={"MaxLen": maxlen, "Dev": set(), "Tamper": True, "EmitLen": 0},
        invariants=["ReadersRefineScan"], constraints=["Emit"]), timeout=7200)
    scns = [r for r in mc.records if r.get("t") == "SCN"]
    if not scns:
        raise Infra("TLC emitted no scenarios")
    scn_path = os.path.join(ctx.scratch, "scn.ndjson")
    write_ndjson(scn_path, scns)
    trace = os.path.join(ctx.scratch, "trace.ndjson")
    run_vh(ctx, ["rslquery", "-scn", scn_path, "-out", trace, "-seed", ctx.seed, "-n", nq])
    known = devsets("C04")
    cls = validate_trace(ctx, "Trace_RSLQuery", trace, {"Known": known, "AsBuilt": known})
    tally = Tally(ctx)
    for rec in cls:
        tally.add_many("conform", rec["conform"])
        for it in other_items(rec):
            r = it["r"]
            tally.add(r["cls"], {"chain_id": rec["id"], "q": it["q"], "obs": it["obs"], "why": r.get("why")},
                      dev=r.get("dev"))
    tally.nontrivial = set(range(len(cls)))
    samples = [{"chain": scns[0]["chain"], "queries_run": nq}, {"chain": scns[-1]["chain"], "tampered": scns[-1]["tampered"]}]
    return finish(ctx, tally, samples=samples, traces=len(cls), exhaustive=quick is False,
                  assumptions=["chains are written with an independent serialiser directly into an in-memory "
                               "Git-format object store (harness/memstore) that pkg/rsl reads through gitstore.Storer",
                               "query options are sampled per chain with VERIF_SEED (%d per chain)" % nq])


CHECKS = {
    "C04": c04,
}
