"""Per-property check definitions (see vcheck.py for the shared machinery)."""
import json
import random
import os

from vcheck import (Infra, Tally, build_harness, finish, load_known, model_check, read_ndjson, run_tlc, run_vh,
                    validate_trace, write_ndjson)


def devsets(pid):
    """(Known, AsBuilt): deviations listed for this property / for any property (not fixed)."""
    known, _ = load_known(pid)
    devs = set()
    for k in known:
        for d in (k.get("deviations") or [k.get("deviation")]):
            devs.add(d)
    allk = set()
    path = os.path.join(os.path.dirname(os.path.dirname(os.path.abspath(__file__))), "known_findings.jsonl")
    if os.path.exists(path):
        for r in read_ndjson(path):
            if not r.get("fixed"):
                for d in (r.get("deviations") or [r.get("deviation")]):
                    allk.add(d)
    return devs, allk | devs


def _model_check_with_override(ctx, module, cfg, overrides):
    cfg = dict(cfg)
    cfg["overrides"] = overrides
    return model_check(ctx, module, cfg, timeout=7200)


def other_items(rec):
    o = rec.get("other", [])
    return list(o.values()) if isinstance(o, dict) else list(o)


RSLQ_DEVS = {"UntilEntryIdExclusive", "UntilNotAppliedAtBeforeAnchor", "BeforeAnchorBelowUntilId"}
WRITER_DEVS = {"StaleTipNumbering", "FirstCommitNotRolledBack"}


# ---------------------------------------------------------------------------
# C04  RSL queries match a plain scan of the chain and fail closed on tampering

def c04(ctx):
    quick = ctx.quick()
    nq = 60 if quick else 250
    # every chain up to 3 entries with every single-point corruption (4 entries: > 1 h on 16 cores, measured; not used)
    mc = model_check(ctx, "MC_RSLQuery", dict(
        constants={"MaxLen": 3, "Dev": set(), "Tamper": True, "EmitLen": 0},
        invariants=["ReadersRefineScan"], constraints=["Emit"]), timeout=7200)
    scns = [r for r in mc.records if r.get("t") == "SCN"]
    if not quick:
        # beyond the exhaustive bound: random chains of up to 6 entries (and their corruptions) in simulation mode; the
        # refinement invariant is evaluated on every state visited, chains of 5 entries and more are replayed
        r = run_tlc(ctx, "MC_RSLQuery", dict(constants={"MaxLen": 6, "Dev": set(), "Tamper": True, "EmitLen": 5},
                                             invariants=["ReadersRefineScan"], constraints=["Emit"]),
                    workers=8, sim="num=25", extra=["-depth", "8", "-seed", str(ctx.seed + 3)], timeout=7200)
        if r.violated:
            raise Infra("specification error: %s violated on a random long chain (see %s)" % (r.violated, r.out_path))
        if r.error:
            raise Infra("TLC error in simulation: %s" % r.error)
        seen = set()
        for x in r.records:
            k = json.dumps(x, sort_keys=True)
            if x.get("t") == "SCN" and k not in seen:
                seen.add(k)
                scns.append(x)
    if not scns:
        raise Infra("TLC emitted no scenarios")
    scn_path = os.path.join(ctx.scratch, "scn.ndjson")
    write_ndjson(scn_path, scns)
    trace = os.path.join(ctx.scratch, "trace.ndjson")
    run_vh(ctx, ["rslquery", "-scn", scn_path, "-out", trace, "-seed", ctx.seed, "-n", nq])
    known, asbuilt = devsets("C04")
    asbuilt = asbuilt & RSLQ_DEVS
    cls = validate_trace(ctx, "Trace_RSLQuery", trace, {"Known": known, "AsBuilt": asbuilt | known})
    tally = Tally(ctx)
    for rec in cls:
        tally.add_many("conform", rec["conform"])
        for it in other_items(rec):
            r = it["r"]
            tally.add(r["cls"], {"chain_id": rec["id"], "q": it["q"], "obs": it["obs"], "why": r.get("why")},
                      dev=r.get("dev"))
    tally.nontrivial = set(range(len(cls)))
    samples = [{"chain": scns[0]["chain"], "queries_run": nq}, {"chain": scns[-1]["chain"], "tampered": scns[-1]["tampered"]}]
    return finish(ctx, tally, samples=samples, traces=len(cls), exhaustive=True,
                  assumptions=["every chain of up to 3 entries with every single-point corruption is model-checked and replayed; the thorough "
                               "tier adds random chains of up to 6 entries from TLC's simulation mode",
                               "chains are written with an independent serialiser directly into an in-memory "
                               "Git-format object store (harness/memstore) that pkg/rsl reads through gitstore.Storer",
                               "query options are sampled per chain with VERIF_SEED (%d per chain)" % nq])


# ---------------------------------------------------------------------------
# C14  RSL entry text and its parsed form determine each other

def c14(ctx):
    quick = ctx.quick()
    mc = model_check(ctx, "MC_EntryCodec", dict(
        constants={"MaxBody": 4 if quick else 5, "EmitAll": 2 if quick else 3, "EmitMod": 29 if quick else 97,
                   "EmitRes": ctx.seed % (29 if quick else 97)},
        invariants=["IRefinesD", "Idem", "RoundTrip"], constraints=["Emit"]), timeout=7200)
    scns = [r for r in mc.records if r.get("t") == "SCN"]
    if not scns:
        raise Infra("TLC emitted no scenarios")
    scn_path = os.path.join(ctx.scratch, "scn.ndjson")
    write_ndjson(scn_path, scns)
    parts = []
    for mode, args in (("parse", ["-scn", scn_path, "-n", 2 if quick else 4]), ("record", []),
                       ("fuzz", ["-n", 20000 if quick else 300000])):
        out = os.path.join(ctx.scratch, "tr_%s.ndjson" % mode)
        run_vh(ctx, ["codec", "-mode", mode, "-out", out, "-seed", ctx.seed] + args)
        parts.append(out)
    trace = os.path.join(ctx.scratch, "trace.ndjson")
    with open(trace, "w") as f:
        for p in parts:
            f.write(open(p).read())
    cls = validate_trace(ctx, "Trace_EntryCodec", trace, {})
    tally = Tally(ctx)
    accepted = 0
    modes = {}
    for rec in cls:
        tally.add(rec["cls"], {"id": rec["id"], "mode": rec["mode"], "why": rec["why"]},
                  nontrivial_key=(rec["mode"], rec["id"]) if rec["acc"] else None)
        accepted += 1 if rec["acc"] else 0
        modes[rec["mode"]] = modes.get(rec["mode"], 0) + 1
    ctx.coverage_extra.update({"accepted_texts": accepted, "lines_by_mode": modes})
    # replay files carry the offending line
    if tally.violations:
        lines = {}
        for p in parts:
            for r in read_ndjson(p):
                lines[(r["mode"], r["id"])] = r
        for v in tally.violations:
            v["line"] = lines.get((v["mode"], v["id"]))
    samples = [scns[len(scns) // 2]["text"], {"mode": "fuzz", "lines": modes.get("fuzz", 0)}]
    return finish(ctx, tally, samples=samples, traces=len(cls), exhaustive=False,
                  assumptions=["exhaustive at line-token level up to the body bound; bytes are covered by seeded "
                               "renderings of each token text, by entries recorded through the real writers and by "
                               "seeded structured mutations / raw random bytes projected to tokens by the harness lexer",
                               "PEM message decoding is opaque: only equality of the decoded message is checked"])


# ---------------------------------------------------------------------------
# C03 / C17  recording operations: sequential histories and concurrent writers

def _writers(ctx, pid, modes, limit, real_limit=0):
    known, asbuilt = devsets(pid)
    asbuilt = (asbuilt & WRITER_DEVS) | known
    scns = []
    for mode, maxseq in modes:
        consts = {"Mode": '"%s"' % mode, "MaxSeq": maxseq, "EmitOn": False, "Dev": set()}
        model_check(ctx, "MC_Writers", dict(constants=consts, invariants=["Inv", "SeqBranch"], properties=["AppendOnly"],
                                            view="View", constraints=["Emit"]), timeout=7200)
        # schedules of the as-built machine, one per distinct terminal state
        consts2 = dict(consts, EmitOn=True, Dev=asbuilt)
        r = run_tlc(ctx, "MC_Writers", dict(constants=consts2, view="View", constraints=["Emit"]), timeout=7200)
        if r.error or r.violated:
            raise Infra("scenario emission failed: %s" % (r.error or r.violated))
        scns += [x for x in r.records if x.get("t") == "SCN"]
    if not scns:
        raise Infra("TLC emitted no scenarios")
    scn_path = os.path.join(ctx.scratch, "scn.ndjson")
    write_ndjson(scn_path, scns)
    trace_mem = os.path.join(ctx.scratch, "trace_mem.ndjson")
    run_vh(ctx, ["writers", "-scn", scn_path, "-out", trace_mem, "-seed", ctx.seed, "-n", limit])
    parts = [trace_mem]
    if real_limit:
        # the same schedules on real on-disk repositories through gitinterface.Repository (gated Storer + Commit yield hook)
        trace_real = os.path.join(ctx.scratch, "trace_real.ndjson")
        run_vh(ctx, ["writers", "-mode", "real", "-scn", scn_path, "-out", trace_real, "-seed", ctx.seed + 7, "-n", real_limit], timeout=7200)
        parts.append(trace_real)
    trace = os.path.join(ctx.scratch, "trace.ndjson")
    n = 0
    with open(trace, "w") as f:
        for p in parts:
            for rr in read_ndjson(p):
                n += 1
                rr["id"] = n
                rr["backend"] = "git" if p != trace_mem else "mem"
                f.write(json.dumps(rr, separators=(",", ":")) + "\n")
    ctx.coverage_extra["replayed_on_real_git"] = n - sum(1 for _ in open(trace_mem))
    cls = validate_trace(ctx, "Trace_Writers", trace, {"Known": known, "AsBuilt": asbuilt})
    lines = {r["id"]: r for r in read_ndjson(trace)}
    tally = Tally(ctx)
    notfollowed = 0
    for rec in cls:
        r = rec["r"]
        line = lines[rec["id"]]
        item = {"id": rec["id"], "backend": line.get("backend"), "why": r.get("why"), "sched": line["scn"]["sched"], "jobs": line["scn"]["jobs"],
                "init": line["scn"]["init"], "obs": line["obs"]} if r["cls"] != "conform" else None
        tally.add(r["cls"], item, dev=r.get("dev"), nontrivial_key=rec["id"] if rec["n"] > 0 else None)
        notfollowed += 0 if rec["followed"] else 1
    ctx.coverage_extra.update({"scenarios_emitted": len(scns), "schedules_not_followed_by_code": notfollowed})
    samples = [{"jobs": scns[0]["jobs"], "sched": scns[0]["sched"], "expected_chain": scns[0]["chain"]}]
    extra = 0
    if pid == "C03":
        extra = _autoskip(ctx, tally)
    return finish(ctx, tally, samples=samples, traces=len(cls) + extra,
                  assumptions=["writers run on the harness' in-memory Git-format store shared by all writers; gates are the "
                               "reference reads/writes seen through gitstore.Storer plus the point between tip read and "
                               "compare-and-set inside Commit",
                               "one schedule per distinct terminal state of the model is replayed (seeded sample of %d)" % limit])


AUTOSKIP_DEVS = {"AutoSkipIgnoresReference"}


def _autoskip(ctx, tally):
    """The 'automatic skips' recording operation of C03: SkipAllInvalidReferenceEntriesForRef on every log up to the bound."""
    known, asbuilt = devsets("C03")
    asbuilt = (asbuilt & AUTOSKIP_DEVS) | (known & AUTOSKIP_DEVS)
    q = ctx.quick()
    consts = {"MaxLen": 3 if q else 4, "Dev": set()}
    mc = model_check(ctx, "MC_AutoSkip", dict(constants=consts, invariants=["Guarantees"], constraints=["Emit"]), workers=8, timeout=3600)
    r = run_tlc(ctx, "MC_AutoSkip", dict(constants=dict(consts, MaxLen=3, Dev=AUTOSKIP_DEVS), invariants=["Harmless"]), workers=4, timeout=1800)
    if r.error or not r.violated:
        raise Infra("the automatic-skip deviation was expected to be visible in the model (vacuity guard): %s" % (r.error or "no violation"))
    scns, seen = [], set()
    for x in mc.records:
        k = json.dumps(x, sort_keys=True)
        if x.get("t") == "SCN" and k not in seen:
            seen.add(k)
            scns.append(x)
    if not scns:
        raise Infra("TLC emitted no automatic-skip scenarios")
    d = ctx.sub("autoskip")
    scn_path = os.path.join(d, "scn.ndjson")
    write_ndjson(scn_path, scns)
    trace = os.path.join(d, "trace.ndjson")
    run_vh(ctx, ["autoskip", "-scn", scn_path, "-out", trace, "-seed", ctx.seed, "-n", 3000 if q else 40000])
    cls = validate_trace(ctx, "Trace_AutoSkip", trace, {"Known": known & AUTOSKIP_DEVS, "AsBuilt": asbuilt})
    lines = None
    for rec in cls:
        x = rec["r"]
        if x["cls"] == "infra":
            raise Infra("automatic-skip scenario %d could not run: %s" % (rec["id"], x.get("why")))
        item = None
        if x["cls"] != "conform":
            if lines is None:
                lines = {y["id"]: y for y in read_ndjson(trace)}
            ln = lines[rec["id"]]
            item = {"operation": "automatic skip", "why": x.get("why"), "log": ln["log"], "ref": ln["ref"], "appended": ln["appended"], "res": ln["res"]}
        tally.add(x["cls"], item, dev=x.get("dev"), nontrivial_key=("autoskip", rec["id"]))
    ctx.coverage_extra["autoskip_scenarios"] = len(cls)
    return len(cls)


def c03(ctx):
    return _writers(ctx, "C03", [("seq", 3 if ctx.quick() else 4)], 4000 if ctx.quick() else 60000)


def c17(ctx):
    modes = [("conc2", 0)] if ctx.quick() else [("conc2", 0), ("conc3", 0)]
    return _writers(ctx, "C17", modes, 6000 if ctx.quick() else 80000, real_limit=100 if ctx.quick() else 1000)


# ---------------------------------------------------------------------------
# C16  a storage failure at any step leaves log valid and managed refs consistent

FAULT_DEVS = {"FirstCommitNotRolledBack", "ReconcileStagingNoRollback"}


def c16(ctx):
    known, asbuilt = devsets("C16")
    asbuilt = (asbuilt & FAULT_DEVS) | known
    model_check(ctx, "MC_Faults", dict(constants={"Dev": set()}, invariants=["PostConditions"]), workers=4, timeout=1800)
    seeds = [ctx.seed] if ctx.quick() else [ctx.seed, ctx.seed + 1, ctx.seed + 2]
    trace = os.path.join(ctx.scratch, "trace.ndjson")
    n = 0
    with open(trace, "w") as f:
        for sd in seeds:
            out = os.path.join(ctx.scratch, "ft_%d.ndjson" % sd)
            run_vh(ctx, ["faults", "-out", out, "-seed", sd])
            for r in read_ndjson(out):
                n += 1
                r["id"] = n
                f.write(json.dumps(r, separators=(",", ":")) + "\n")
    cls = validate_trace(ctx, "Trace_Faults", trace, {"Known": known, "AsBuilt": asbuilt}, shards=4)
    lines = {r["id"]: r for r in read_ndjson(trace)}
    tally = Tally(ctx)
    for rec in cls:
        r = rec["r"]
        ln = lines[rec["id"]]
        item = None
        if r["cls"] != "conform":
            item = {"op": ln["op"], "start": ln["start"], "kind": ln["kind"], "call": ln["call"], "err": ln["err"],
                    "retryErr": ln["retryErr"], "post": ln["post"], "retry_msg": ln.get("msg", ""), "why": r.get("why")}
        tally.add(r["cls"], item, dev=r.get("dev"),
                  nontrivial_key=(ln["op"], ln["start"], ln["kind"], ln["call"]["n"]) if rec["nontrivial"] else None)
    sample = lines[min(5, n)]
    samples = [{"op": sample["op"], "start": sample["start"], "kind": sample["kind"], "call": sample["call"],
                "post": sample["post"]["st"]}]
    return finish(ctx, tally, samples=samples, traces=len(cls), exhaustive=True,
                  assumptions=["faults are injected and crashes emulated at the gitstore.Storer boundary of the harness' "
                               "in-memory store: every call index of every (operation, start state) of the matrix",
                               "a crash parks the operation forever after call k (no deferred function runs); the state is "
                               "re-read through a fresh handle",
                               "verification verdicts after a crash are not yet compared (log validity and whole-entry "
                               "prefix conditions are)"])


# ---------------------------------------------------------------------------
# C05  thresholds count distinct trusted principals, each with a distinct valid key

def c05(ctx):
    quick = ctx.quick()
    cfgs = [dict(NP=2, KeyPool={"k1", "k2", "k3"}, MaxThr=3, EmitMod=1, EmitRes=0),
            dict(NP=3, KeyPool={"k1", "k2", "k3"}, MaxThr=4, EmitMod=23 if quick else 5, EmitRes=ctx.seed % (23 if quick else 5))]
    if not quick:
        cfgs.append(dict(NP=3, KeyPool={"k1", "k2", "k3", "k4"}, MaxThr=5, EmitMod=97, EmitRes=ctx.seed % 97))
    scns = []
    for c in cfgs:
        mc = model_check(ctx, "MC_Signatures", dict(constants=c, invariants=["Refines"], constraints=["Emit"]), timeout=7200)
        scns += [r for r in mc.records if r.get("t") == "SCN"]
    if not scns:
        raise Infra("TLC emitted no scenarios")
    scn_path = os.path.join(ctx.scratch, "scn.ndjson")
    write_ndjson(scn_path, scns)
    trace = os.path.join(ctx.scratch, "trace.ndjson")
    run_vh(ctx, ["signatures", "-scn", scn_path, "-out", trace, "-seed", ctx.seed, "-n", 1 if quick else 3])
    cls = validate_trace(ctx, "Trace_Signatures", trace, {"Known": set(), "AsBuilt": set()})
    lines = None
    tally = Tally(ctx)
    for rec in cls:
        r = rec["r"]
        item = None
        if r["cls"] != "conform":
            if lines is None:
                lines = {x["id"]: x for x in read_ndjson(trace)}
            item = {"id": rec["id"], "why": r.get("why"), "scn": lines[rec["id"]]["scn"], "obs": lines[rec["id"]]["obs"]}
        tally.add(r["cls"], item, nontrivial_key=rec["id"] if rec["nt"] else None)
    return finish(ctx, tally, samples=[scns[len(scns) // 3], scns[-1]], traces=len(cls),
                  assumptions=["rules are materialised as signed tufv02 metadata with Person principals; signatures are real "
                               "sshsig signatures made in-process with deterministic ed25519 keys; the iteration order of "
                               "principals inside gittuf (Go map order) is left to the runtime and matched existentially",
                               "GPG and Sigstore key types are not concretised"])


# ---------------------------------------------------------------------------
# C06  rules consulted for a path are exactly those of the documented delegation walk

def c06(ctx):
    quick = ctx.quick()
    mod = 41 if quick else 13
    consts = dict(MaxFiles=3, MaxPerFile=2 if quick else 3, MaxTotal=3, EmitMod=mod, EmitRes=ctx.seed % mod)
    mc = model_check(ctx, "MC_Delegations", dict(constants=consts, invariants=["Refines"], constraints=["Emit"]), timeout=7200)
    scns = [r for r in mc.records if r.get("t") == "SCN"]
    if not scns:
        raise Infra("TLC emitted no scenarios")
    scn_path = os.path.join(ctx.scratch, "scn.ndjson")
    write_ndjson(scn_path, scns)
    trace = os.path.join(ctx.scratch, "trace.ndjson")
    run_vh(ctx, ["delegations", "-scn", scn_path, "-out", trace, "-seed", ctx.seed, "-n", 1 if quick else 4])
    cls = validate_trace(ctx, "Trace_Delegations", trace, {"Known": set(), "AsBuilt": set()})
    lines = None
    tally = Tally(ctx)
    for rec in cls:
        r = rec["r"]
        item = None
        if r["cls"] != "conform":
            if lines is None:
                lines = {x["id"]: x for x in read_ndjson(trace)}
            item = {"id": rec["id"], "why": r.get("why"), "scn": lines[rec["id"]]["scn"], "obs": lines[rec["id"]]["obs"]}
        tally.add(r["cls"], item, nontrivial_key=rec["id"] if rec["nt"] else None)
    return finish(ctx, tally, samples=[scns[len(scns) // 2]], traces=len(cls),
                  assumptions=["graphs are materialised as real rule-file metadata (tufv02, and tufv01 loaded with migration) with "
                               "git: or file: patterns realising the specification's match table (checked against fnmatch at start)",
                               "exhaustive up to 3 rules in total over at most 3 files; larger graphs are not explored yet"])


# ---------------------------------------------------------------------------
# C01 / C07 / C11  the verifier

VERIFY_DEVS = {"MergeableThresholdOneNotPossible", "MergeableGlobalRuleNoRecorderCredit", "PropagationEntryNotVerified", "ExhaustiveVerifierShortCircuit", "FixEntryNotVerified", "InRangePolicyNotSelfVerified",
               "CodeReviewApprovalNotRevalidated"}


def _verify(ctx, pid, fams, limit, invariants, extra=None):
    known, asbuilt = devsets(pid)
    asbuilt = (asbuilt & VERIFY_DEVS) | known
    tally = Tally(ctx)
    total = 0
    samples = []
    for fam, maxlen, mod in fams:
        consts = {"MaxLen": maxlen, "Family": '"%s"' % fam, "EmitMod": mod, "EmitRes": ctx.seed % mod, "AsBuilt": asbuilt,
                  "Pol": "MCPol"}
        cfg = dict(constants={k: v for k, v in consts.items() if k != "Pol"}, invariants=invariants, constraints=["Emit"])
        if fam == "long":
            # long random histories: TLC in simulation mode, `mod` behaviours of depth maxlen; the refinement invariants are
            # evaluated on every state visited, the complete histories are replayed
            cfg["overrides"] = {"Pol": "MCPol"}
            mc = run_tlc(ctx, "MC_Verify", cfg, workers=1, sim="num=%d" % mod, extra=["-depth", str(maxlen), "-seed", str(ctx.seed + 11)],
                         timeout=7200)
            if mc.violated:
                raise Infra("specification error: %s violated on a long random history (see %s)" % (mc.violated, mc.out_path))
            if mc.error:
                raise Infra("TLC error in simulation: %s" % mc.error)
            ctx.states += mc.distinct
            ctx.transitions += mc.generated
        else:
            mc = _model_check_with_override(ctx, "MC_Verify", cfg, {"Pol": "MCPol"})
        pol = [r for r in mc.records if r.get("t") == "POL"][:1]
        scns = [r for r in mc.records if r.get("t") == "SCN"]
        if not pol or not scns:
            raise Infra("TLC emitted no scenarios for family %s" % fam)
        d = ctx.sub("verify-" + fam)
        write_ndjson(os.path.join(d, "pol.ndjson"), pol)
        write_ndjson(os.path.join(d, "scn.ndjson"), scns)
        trace = os.path.join(d, "trace.ndjson")
        run_vh(ctx, ["verify", "-scn", os.path.join(d, "scn.ndjson"), "-aux", os.path.join(d, "pol.ndjson"), "-out", trace,
                     "-seed", ctx.seed, "-n", limit])
        cls = validate_trace(ctx, "Trace_Verify", trace, {"Known": known, "AsBuilt": asbuilt, "Prop": '"%s"' % pid},
                             extra_cfg={"overrides": {"Pol": "TracePol"}}, files=[("pol.ndjson", os.path.join(d, "pol.ndjson"))])
        lines = None
        for rec in cls:
            if rec["err"]:
                raise Infra("harness could not build scenario %s/%d: %s" % (fam, rec["id"], rec["err"]))
            rr = rec["r"]
            for ref in sorted(rr):
                x = rr[ref]
                item = None
                if x["cls"] != "conform":
                    if lines is None:
                        lines = {y["id"]: y for y in read_ndjson(trace)}
                    ln = lines[rec["id"]]
                    item = {"family": fam, "ref": ref, "why": x.get("why"), "log": ln["scn"]["log"], "obs": ln["obs"]}
                tally.add(x["cls"], item, dev=x.get("dev"), nontrivial_key=(fam, rec["id"], ref) if rec["nt"] else None)
        total += len(cls)
        samples.append({"family": fam, "log": scns[len(scns) // 2]["log"]})
    if extra:
        total += extra(ctx, tally)
    return finish(ctx, tally, samples=samples, traces=total,
                  assumptions=["logs are concretised on the harness' in-memory Git-format store: real tufv02 policy metadata signed "
                               "by a root key, SSH-signed RSL entries and commits, real reference-authorization attestations",
                               "principals hold one key each (shared keys are C05's subject); policy entries are chain-valid "
                               "(broken chains are C02's subject)",
                               "every log up to the family bound is model-checked; a seeded sample of them is replayed; the 'long' family (C01) "
                               "are random histories of 14 entries generated by TLC in simulation mode"])


def c01(ctx):
    q = ctx.quick()
    fams = [("core", 5 if q else 6, 797 if q else 6397), ("recovery", 6 if q else 7, 61 if q else 211), ("global", 5 if q else 6, 97 if q else 397),
            ("nopolicy", 3, 11), ("window", 9, 100003), ("long", 14, 60 if q else 1200)]
    if not q:
        fams.append(("tworec", 9, 100003))
    return _verify(ctx, "C01", fams, 3000 if q else 60000, ["C01Refines"])


def c02(ctx):
    q = ctx.quick()
    fams = [("chain", 5 if q else 6, 17 if q else 97)]
    return _verify(ctx, "C02", fams, 8000 if q else 60000, ["C01Refines", "C02Refines"])


def c09(ctx):
    q = ctx.quick()
    fams = [("approvals", 4 if q else 5, 5 if q else 23), ("apprskip", 9, 100003), ("apprlate", 9, 100003)]
    return _verify(ctx, "C09", fams, 8000 if q else 60000, ["C01Refines"])


def c19(ctx):
    q = ctx.quick()
    fams = [("merge", 4 if q else 5, 3 if q else 11)]
    return _verify(ctx, "C19", fams, 3000 if q else 40000, ["C19Agrees"], extra=_merge_file_rules)


def _merge_file_rules(ctx, tally):
    """C19 with file rules: for the commit graphs of MC_Trees the prediction made before the commits are recorded must agree
    with verification of the recorded merge (the branch itself is unprotected there, so the listed branch-threshold
    deviations of the prediction do not interfere)."""
    q = ctx.quick()
    mod = 97 if q else 11
    scns, seen = [], set()
    for shapes in ({"two", "linear", "back"}, {"merge", "mergeall"}):
        r = run_tlc(ctx, "MC_Trees", dict(constants={"Dev": set(), "Shapes": shapes, "EmitMod": mod, "EmitRes": ctx.seed % mod}, constraints=["Emit"]),
                    workers=4, timeout=3600)
        if r.error or r.violated:
            raise Infra("scenario emission failed: %s" % (r.error or r.violated))
        for x in r.records:
            k = json.dumps(x, sort_keys=True)
            if x.get("t") == "SCN" and k not in seen:
                seen.add(k)
                scns.append(x)
    if not scns:
        raise Infra("TLC emitted no commit-graph scenarios")
    d = ctx.sub("mergetrees")
    scn_path = os.path.join(d, "scn.ndjson")
    write_ndjson(scn_path, scns)
    trace = os.path.join(d, "trace.ndjson")
    run_vh(ctx, ["trees", "-scn", scn_path, "-out", trace, "-seed", ctx.seed, "-n", 150 if q else 2500], timeout=6 * 3600)
    cls = validate_trace(ctx, "Trace_Trees", trace, {"Known": set(), "AsBuilt": set(), "Judge": '"C19"'}, shards=2 if q else 8)
    lines = {x["id"]: x for x in read_ndjson(trace)}
    for rec in cls:
        x = rec["r"]
        ln = lines[rec["id"]]
        item = None
        if x["cls"] != "conform":
            item = {"family": "file rules", "why": x.get("why"), "names": ln["names"], "pattern": ln["pattern"], "scenario": ln["sc"],
                    "verdict": ln["verdict"], "mergeable": ln["mergeable"], "mergemsg": ln["mergemsg"]}
        tally.add(x["cls"], item, nontrivial_key=("trees", rec["id"]) if len(ln["sc"]["commits"]) >= 3 else None)
    return len(cls)


def c07(ctx):
    q = ctx.quick()
    fams = [("recovery", 6 if q else 7, 23 if q else 61), ("core", 5 if q else 6, 1597 if q else 9973), ("window", 9, 100003),
            ("tworec", 9, 100003), ("long", 14, 50 if q else 1000)]
    return _verify(ctx, "C07", fams, 8000 if q else 80000, ["C07Refines"])


def c11(ctx):
    q = ctx.quick()
    fams = [("global", 5 if q else 6, 29 if q else 97)]
    return _verify(ctx, "C11", fams, 8000 if q else 80000, ["C01Refines", "C11Mono"])


# ---------------------------------------------------------------------------
# C13  policy metadata stays well formed under edits, serialisation and migration

META_DEVS = {"AddHookPartialOnError", "DuplicatePrincipalsMeetThreshold"}


def c13(ctx):
    q = ctx.quick()
    known, asbuilt = devsets("C13")
    asbuilt = (asbuilt & META_DEVS) | known
    scns, seen = [], set()
    for which, maxlen, mod in (("file", 5 if q else 6, 1 if q else 3), ("root", 4 if q else 5, 3 if q else 7),
                               ("multi", 5 if q else 7, 1 if q else 3)):
        consts = {"MaxLen": maxlen, "Dev": set(), "Which": '"%s"' % which, "EmitMod": mod, "EmitRes": ctx.seed % mod}
        model_check(ctx, "MC_Metadata", dict(constants=consts, invariants=["WF", "RefusedUnchanged"], view="View"), timeout=7200)
        r = run_tlc(ctx, "MC_Metadata", dict(constants=dict(consts, Dev=asbuilt), view="View", constraints=["Emit"]), timeout=7200)
        if r.error or r.violated:
            raise Infra("scenario emission failed: %s" % (r.error or r.violated))
        for x in r.records:
            k = json.dumps(x, sort_keys=True)
            if x.get("t") == "SCN" and k not in seen:
                seen.add(k)
                scns.append(x)
    if not scns:
        raise Infra("TLC emitted no scenarios")
    scn_path = os.path.join(ctx.scratch, "scn.ndjson")
    write_ndjson(scn_path, scns)
    trace = os.path.join(ctx.scratch, "trace.ndjson")
    run_vh(ctx, ["metadata", "-scn", scn_path, "-out", trace, "-seed", ctx.seed])
    cls = validate_trace(ctx, "Trace_Metadata", trace, {"Known": known, "AsBuilt": asbuilt})
    lines = None
    tally = Tally(ctx)
    for rec in cls:
        r = rec["r"]
        item = None
        if r["cls"] != "conform":
            if lines is None:
                lines = {x["id"]: x for x in read_ndjson(trace)}
            ln = lines[rec["id"]]
            item = {"id": rec["id"], "why": r.get("why"), "which": ln["scn"]["which"], "v01": ln["scn"]["v01"],
                    "edits": ln["scn"]["edits"], "accepted": [st["ok"] for st in ln["steps"]]}
        tally.add(r["cls"], item, dev=r.get("dev"), nontrivial_key=rec["id"] if rec["n"] > 1 else None)
    return finish(ctx, tally, samples=[scns[len(scns) // 2]], traces=len(cls),
                  assumptions=["edit sequences run on tufv02 and tufv01 metadata objects; projections are taken through the "
                               "query interface (GetRules, GetPrincipals, thresholds, GetGlobalRules, GetHooks) of the live, "
                               "reloaded (JSON round trip) and migrated objects",
                               "controller / network repository edits (enable, disable, add) are explored in their own edit alphabet",
                               "uniqueness of rule names across rule files (repository API level) and propagation directive edits are "
                               "not modelled yet"])


# ---------------------------------------------------------------------------
# C20  hook scripts stay inside the sandbox API and stop within their timeout

def c20(ctx):
    known, asbuilt = devsets("C20")
    mc = model_check(ctx, "MC_Sandbox", dict(constants={"Apis": {"matchRegex", "strSplit", "gitReadBlob"}},
                                             invariants=["ConstructionConfines", "Teeth"], constraints=["Emit"]), workers=4, timeout=1800)
    scns, seen = [], set()
    for x in mc.records:
        k = json.dumps(x, sort_keys=True)
        if x.get("t") == "SCN" and k not in seen:
            seen.add(k)
            scns.append(x)
    if not scns:
        raise Infra("TLC emitted no programs")
    scn_path = os.path.join(ctx.scratch, "scn.ndjson")
    write_ndjson(scn_path, scns)
    trace = os.path.join(ctx.scratch, "trace.ndjson")
    run_vh(ctx, ["sandbox", "-scn", scn_path, "-out", trace, "-seed", ctx.seed], timeout=1800)
    cls = validate_trace(ctx, "Trace_Sandbox", trace, {"Known": known, "AsBuilt": known, "TimeoutMs": 1000, "EpsMs": 1500}, shards=1)
    lines = {x["id"]: x for x in read_ndjson(trace)}
    tally = Tally(ctx)
    for rec in cls:
        r = rec["r"]
        ln = lines[rec["id"]]
        item = None
        if r["cls"] != "conform":
            item = {"kind": rec["kind"], "why": r.get("why"), "prog": ln["prog"], "obs": ln["obs"],
                    "env_anomalies": ln["env"].get("anomalies")}
        tally.add(r["cls"], item, dev=r.get("dev"), nontrivial_key=rec["id"])
    # hook selection: which hooks a principal is run
    q = ctx.quick()
    hmc = model_check(ctx, "MC_HookSel", dict(constants={"MaxHooks": 2 if q else 3}, invariants=["OnlyAssigned"], constraints=["Emit"]),
                      workers=4, timeout=3600)
    hs, seen = [], set()
    for x in hmc.records:
        k = json.dumps(x, sort_keys=True)
        if x.get("t") == "SCN" and k not in seen:
            seen.add(k)
            hs.append(x)
    if not hs:
        raise Infra("TLC emitted no hook-selection scenarios")
    hscn = os.path.join(ctx.scratch, "hooksel.ndjson")
    write_ndjson(hscn, hs)
    htrace = os.path.join(ctx.sub("hooksel"), "trace.ndjson")
    run_vh(ctx, ["hooksel", "-scn", hscn, "-out", htrace, "-seed", ctx.seed, "-n", 60 if q else 2000], timeout=3 * 3600)
    hcls = validate_trace(ctx, "Trace_HookSel", htrace, {}, shards=2 if q else 8)
    hlines = {x["id"]: x for x in read_ndjson(htrace)}
    for rec in hcls:
        r = rec["r"]
        if r["cls"] == "infra":
            raise Infra("hook-selection scenario %d could not run: %s" % (rec["id"], r.get("why")))
        item = None
        if r["cls"] != "conform":
            item = {"kind": "sel", "why": r.get("why"), "scenario": hlines[rec["id"]]["scn"], "obs": hlines[rec["id"]]["obs"]}
        tally.add(r["cls"], item, nontrivial_key=("sel", rec["id"]))
    env = lines[1]["env"]
    samples = [{"environment_globals": sorted(env["globals"]), "protected": env["prot"]}, {"program": scns[0]["prog"]}, {"hooks": hs[0]}]
    return finish(ctx, tally, samples=samples, traces=len(cls) + len(hcls), exhaustive=True,
                  assumptions=["the closure of the real environment is walked from the Go side through the verif accessor (globals, "
                               "library tables, metatables, string metatable, function environments, upvalues): an over-approximation "
                               "of what a script can reach", "that the allow-listed library functions are pure is gopher-lua's semantics "
                               "and is trusted", "timeouts are judged with a 1.5 s tolerance and a hard outer deadline of 21 s",
                               "hook selection: policies with up to 2 (quick) / 3 (thorough) hooks over two stages and three principals (one a person with "
                               "two keys) are built in real repositories and InvokeHooksForStage(pre-commit) is called with each key; the pre-push "
                               "stage is declared but not invoked (it needs a remote); a seeded sample is replayed"])


# ---------------------------------------------------------------------------
# C10  file rules see every changed path verbatim (real Git, odd path names)

TREE_DEVS = {"QuotedPathsReachMatcher", "SpaceTruncatesTreeListing", "TreeWriterUnquotesNames"}


def c10(ctx):
    q = ctx.quick()
    known, asbuilt = devsets("C10")
    asbuilt = (asbuilt & TREE_DEVS) | known
    base = {"Dev": set(), "EmitMod": 1, "EmitRes": 0}
    small = {"root", "linear", "back", "unrel"}
    # (1) exhaustive: the matcher as designed refines the declarative rule; a net change of a protected path is vouched for
    mc1 = model_check(ctx, "MC_Trees", dict(constants=dict(base, Shapes=small | ({"two"} if not q else set())),
                                            invariants=["Refines", "EndToEnd"]), workers=4, timeout=3600)
    mc2 = model_check(ctx, "MC_Trees", dict(constants=dict(base, Shapes={"merge", "mergeall"}),
                                            invariants=["Refines", "EndToEnd"]), workers=4, timeout=3600)
    # the proviso of EndToEnd is needed: TLC must find the revert-by-merge witness
    r = run_tlc(ctx, "MC_Trees", dict(constants=dict(base, Shapes={"back"}), invariants=["ExemptionMatters"]), workers=2, timeout=1800)
    if r.error or not r.violated:
        raise Infra("ExemptionMatters was expected to fail (vacuity guard): %s" % (r.error or "no violation"))
    # (2) emission: a seeded 1/mod sample of every shape
    mod = 41 if q else 7
    scns, seen = [], set()
    for shapes in (small | {"two"}, {"merge", "mergeall"}):
        r = run_tlc(ctx, "MC_Trees", dict(constants=dict(base, Shapes=shapes, EmitMod=mod, EmitRes=ctx.seed % mod), constraints=["Emit"]),
                    workers=4, timeout=3600)
        if r.error or r.violated:
            raise Infra("scenario emission failed: %s" % (r.error or r.violated))
        for x in r.records:
            k = json.dumps(x, sort_keys=True)
            if x.get("t") == "SCN" and k not in seen:
                seen.add(k)
                scns.append(x)
    if not scns:
        raise Infra("TLC emitted no scenarios")
    scn_path = os.path.join(ctx.scratch, "scn.ndjson")
    write_ndjson(scn_path, scns)
    trace = os.path.join(ctx.scratch, "trace.ndjson")
    run_vh(ctx, ["trees", "-scn", scn_path, "-out", trace, "-seed", ctx.seed, "-n", 400 if q else 2000], timeout=6 * 3600)
    cls = validate_trace(ctx, "Trace_Trees", trace, {"Known": known, "AsBuilt": asbuilt, "Judge": '"C10"'}, shards=4 if q else 12)
    lines = {x["id"]: x for x in read_ndjson(trace)}
    tally = Tally(ctx)
    for rec in cls:
        x = rec["r"]
        ln = lines[rec["id"]]
        item = None
        if x["cls"] != "conform":
            n = ln["sc"]["new"] - 1
            item = {"why": x.get("why"), "names": ln["names"], "pattern": ln["pattern"], "scenario": ln["sc"], "verdict": ln["verdict"],
                    "changed": ln["changed"], "listed": ln["listed"][n], "entries": ln["entries"][n], "rewrite": ln["rewrite"][n],
                    "lookup": ln["lookup"][n], "backend": ln["backend"]}
        odd = any(c != "plain" for c in ln["cls"].values())
        tally.add(x["cls"], item, dev=x.get("dev"), nontrivial_key=rec["id"] if odd and not ln["sc"]["star"] else None)
    return finish(ctx, tally, samples=[{"names": lines[1]["names"], "pattern": lines[1]["pattern"], "scenario": lines[1]["sc"]}],
                  traces=len(cls), exhaustive=False,
                  assumptions=["commit graphs: root, linear (one and two new commits), merge of a side branch (old tip before / after the fork), "
                               "merge back of an ancestor, merge of unrelated history; three path atoms (two files, one file in a directory)",
                               "each scenario is built with a seeded assignment of name classes (plain, space, git-quoted: tab / double quote / "
                               "backslash / control / multi-byte UTF-8 / DEL, glob metacharacters) to the atoms, exported to an on-disk repository "
                               "and observed through the real gitinterface.Repository; one scenario in eight is verified entirely on the on-disk "
                               "repository, the others read policy, log and signatures from the in-memory store and the commit range and changed "
                               "paths from real Git", "newline in path names is outside the property's alphabet",
                               "file rules with threshold 1 and one trusted principal; approvals for file rules are not exercised",
                               "for merges the documented rule of GetFilePathsChangedByCommit is the oracle: a merge that is tree-same to its "
                               "last parent changes nothing, otherwise the union of the differences to every parent; TLC shows (ExemptionMatters) "
                               "that this exemption lets a merge revert a protected path without an authorised signature -- recorded as a design "
                               "observation, not as a violation"])


# ---------------------------------------------------------------------------
# C18  propagation copies exactly the upstream subtree and is idempotent (two real repositories)

PROP_DEVS = {"AlreadyPropagatedIgnoresUpstreamPath", "ModesNotPreserved"}


def c18(ctx):
    q = ctx.quick()
    known, asbuilt = devsets("C18")
    asbuilt = (asbuilt & PROP_DEVS) | known
    mod = 61 if q else 23
    consts = {"MaxLen": 4 if q else 5, "Dev": set(), "EmitMod": mod, "EmitRes": ctx.seed % mod}
    mc = model_check(ctx, "MC_Propagation", dict(constants=consts, invariants=["Refines", "Guarantees", "Idempotent"], view="View",
                                                 constraints=["Emit"]), workers=8, timeout=3 * 3600)
    # teeth: with the listed deviations the guarantees fail in the model
    for d in sorted(PROP_DEVS):
        r = run_tlc(ctx, "MC_Propagation", dict(constants=dict(consts, MaxLen=3, Dev={d}, EmitMod=1, EmitRes=0), invariants=["Refines"], view="View"),
                    workers=4, timeout=1800)
        if r.error or not r.violated:
            raise Infra("deviation %s was expected to break Refines (vacuity guard): %s" % (d, r.error or "no violation"))
    scns, seen = [], set()
    for x in mc.records:
        k = json.dumps(x, sort_keys=True)
        if x.get("t") == "SCN" and k not in seen:
            seen.add(k)
            scns.append(x)
    if not scns:
        raise Infra("TLC emitted no scenarios")
    scn_path = os.path.join(ctx.scratch, "scn.ndjson")
    write_ndjson(scn_path, scns)
    trace = os.path.join(ctx.scratch, "trace.ndjson")
    run_vh(ctx, ["propagation", "-scn", scn_path, "-out", trace, "-seed", ctx.seed, "-n", 70 if q else 600], timeout=6 * 3600)
    cls = validate_trace(ctx, "Trace_Propagation", trace, {"Known": known, "AsBuilt": asbuilt}, shards=4 if q else 12)
    lines = {x["id"]: x for x in read_ndjson(trace)}
    tally = Tally(ctx)
    for rec in cls:
        x = rec["r"]
        ln = lines[rec["id"]]
        if x["cls"] == "infra":
            raise Infra("harness could not run scenario %d: %s" % (rec["id"], x.get("why")))
        item = None
        if x["cls"] != "conform":
            item = {"why": x.get("why"), "names": ln["names"], "init": ln["scn"]["init"], "acts": ln["scn"]["acts"], "obs": ln["obs"]}
        nprop = sum(1 for a in ln["scn"]["acts"] if a["a"] == "propagate")
        tally.add(x["cls"], item, dev=x.get("dev"), nontrivial_key=rec["id"] if nprop >= 2 else None)
    return finish(ctx, tally, samples=[{"names": lines[1]["names"], "acts": lines[1]["scn"]["acts"]}], traces=len(cls), exhaustive=False,
                  assumptions=["upstream and downstream are bare on-disk repositories; the upstream one is built by the harness (objects in Git's byte "
                               "format, log entries as the entry texts), the downstream one is changed only by "
                               "propagation.PropagateChangesFromUpstreamRepository and, for downstream edits, by git plumbing",
                               "observations are read with NUL-delimited git plumbing (ls-tree -r -z, rev-list, cat-file), never through gitinterface",
                               "four upstream trees (nested directories, an executable file, odd names), directives with upstream path none / one / "
                               "two components, downstream path one / two components with and without trailing slash, one or two directives per "
                               "call on disjoint downstream paths; a downstream path that is a file, or an upstream path that is a file, is not covered",
                               "worktree refresh of non-bare downstream repositories is not covered",
                               "a seeded sample of the emitted action sequences is replayed"])


# ---------------------------------------------------------------------------
# C15  reconcile and sync never drop, reorder, un-revoke or invent log entries (two real repositories)

REC_DEVS = {"ReplayedAnnotationKeepsStaleId", "ReplayDropsPropagationEntries", "ConflictCheckIgnoresPropagation", "SyncIgnoresPropagationEntries"}


def c15(ctx):
    q = ctx.quick()
    known, asbuilt = devsets("C15")
    asbuilt = (asbuilt & REC_DEVS) | known
    mod = 41 if q else 53
    # (local suffix 3 x remote suffix 2 did not finish in an hour with the alphabet of resets and notes; measured)
    consts = {"MaxC": 2, "MaxL": 2, "MaxR": 1 if q else 2, "Dev": set(), "EmitMod": mod, "EmitRes": ctx.seed % mod}
    mc = model_check(ctx, "MC_Reconcile", dict(constants=consts, invariants=["Refines", "Consequences", "RevocationSurvives", "SyncGuarantees"],
                                               constraints=["Emit"]), workers=8, timeout=4 * 3600)
    for d in sorted(REC_DEVS):      # teeth: each listed deviation breaks an invariant in the model
        r = run_tlc(ctx, "MC_Reconcile", dict(constants=dict(consts, MaxL=2, MaxR=1, Dev={d}, EmitMod=1, EmitRes=0),
                                              invariants=["Refines", "RevocationSurvives", "SyncGuarantees"]), workers=4, timeout=1800)
        if r.error or not r.violated:
            raise Infra("deviation %s was expected to break an invariant (vacuity guard): %s" % (d, r.error or "no violation"))
    scns, seen = [], set()
    for x in mc.records:
        k = json.dumps(x, sort_keys=True)
        if x.get("t") == "SCN" and k not in seen:
            seen.add(k)
            scns.append(x)
    if not scns:
        raise Infra("TLC emitted no scenarios")
    # the special shapes are replayed in full, the rest as a seeded sample
    special = [x for x in scns if x.get("special")]
    rest = [x for x in scns if not x.get("special")]
    random.Random(ctx.seed).shuffle(rest)
    random.Random(ctx.seed + 1).shuffle(special)

    def E(u, k, ref="", t=None, tg=(), skip=False):
        return {"u": u, "k": k, "ref": ref, "t": (u if t is None and k != "ann" else (t or 0)), "tg": list(tg), "skip": skip}
    # shapes beyond the quick bound that are always replayed: an entry of a suffix with a revocation and a later plain note
    # (both directions), and a reference reset on one side while the other side revokes a shared entry of it
    fixed = [{"t": "SCN", "C": [E(1, "ref", "main")], "L": [], "R": [E(2, "ref", "main"), E(3, "ann", tg=[2], skip=True), E(4, "ann", tg=[2])],
              "kind": "ff", "special": True},
             {"t": "SCN", "C": [E(1, "ref", "main")], "L": [E(2, "ref", "feat"), E(3, "ann", tg=[2], skip=True), E(4, "ann", tg=[2])], "R": [],
              "kind": "ahead", "special": True},
             {"t": "SCN", "C": [E(1, "ref", "main"), E(2, "ref", "main")], "L": [E(3, "ref", "main", t=1), E(4, "ref", "feat")],
              "R": [E(5, "ann", tg=[2], skip=True)], "kind": "replayed", "special": True}]
    # the two faces of the recorded finding F-C15-1 are replayed in every run (push: a local-only propagation entry is published
    # without its reference; fetch: the reference is moved to an older reference entry although a propagation entry is newer)
    fixed += [{"t": "SCN", "op": "sync", "lref": {"main": "behind", "feat": "behind"},
               "C": [E(1, "prop", "feat"), E(2, "ref", "main")], "L": [E(3, "ref", "feat"), E(4, "prop", "feat"), E(5, "ann", tg=[3], skip=True)],
               "R": [], "kind": "ahead", "special": True},
              {"t": "SCN", "op": "syncow", "lref": {"main": "equal", "feat": "behind"},
               "C": [E(1, "ref", "feat"), E(2, "ref", "main")], "L": [], "R": [E(4, "ref", "feat"), E(5, "prop", "feat")],
               "kind": "ff", "special": True}]
    scns = fixed + special[:20 if q else 250] + rest[:40 if q else 350]
    scn_path = os.path.join(ctx.scratch, "scn.ndjson")
    write_ndjson(scn_path, scns)
    trace = os.path.join(ctx.scratch, "trace.ndjson")
    run_vh(ctx, ["reconcile", "-scn", scn_path, "-out", trace, "-seed", ctx.seed], timeout=6 * 3600)
    cls = validate_trace(ctx, "Trace_Reconcile", trace, {"Known": known, "AsBuilt": asbuilt}, shards=4 if q else 12)
    lines = {x["id"]: x for x in read_ndjson(trace)}
    tally = Tally(ctx)
    for rec in cls:
        x = rec["r"]
        ln = lines[rec["id"]]
        if x["cls"] == "infra":
            raise Infra("harness could not run scenario %d: %s" % (rec["id"], x.get("why")))
        item = None
        if x["cls"] != "conform":
            item = {"why": x.get("why"), "op": ln["scn"]["op"], "lref": ln["scn"].get("lref"), "C": ln["scn"]["C"], "L": ln["scn"]["L"],
                    "R": ln["scn"]["R"], "obs": ln["obs"]}
        tally.add(x["cls"], item, dev=x.get("dev"), nontrivial_key=rec["id"] if ln["scn"]["L"] and ln["scn"]["R"] else None)
    return finish(ctx, tally, samples=[{"op": lines[1]["scn"]["op"], "C": lines[1]["scn"]["C"], "L": lines[1]["scn"]["L"], "R": lines[1]["scn"]["R"]}],
                  traces=len(cls), exhaustive=False,
                  assumptions=["local and remote are bare on-disk repositories built by the harness from one shared prefix (file transport, remote "
                               "'origin'); entries are unsigned; ReconcileLocalRSLWithRemote and Sync run through experimental/gittuf.Repository",
                               "logs are read back as meanings (kind, reference, commit, positions referred to) with git plumbing",
                               "sync: branch placements behind / equal / ahead / diverged / absent relative to what the remote log records, with and "
                               "without the overwrite flag; no policy is present, so the propagation step inside Sync does nothing; tags and the "
                               "gittuf:: transport are not covered; non-fast-forward pushes are not provoked",
                               "an observation that differs from the modelled algorithm but satisfies the property's own conditions is counted as "
                               "'safe', not as a violation", "a seeded sample of the emitted log pairs is replayed"])


# ---------------------------------------------------------------------------
# C12  policy ref advances only to verified descendants that verification accepts

def c12(ctx):
    q = ctx.quick()
    known, asbuilt = devsets("C12")
    asbuilt = (asbuilt & {"ApplyPublishesUnchainedRoot"}) | known
    consts = {"MaxLen": 6 if q else 7, "Dev": set(), "EmitMod": 7, "EmitRes": ctx.seed % 7}
    model_check(ctx, "MC_PolicyApply", dict(constants=consts, invariants=["Published", "ApplySafe", "Guard"], view="View"), workers=8, timeout=3600)
    r = run_tlc(ctx, "MC_PolicyApply", dict(constants=dict(consts, Dev=asbuilt), view="View", constraints=["Emit"]), workers=8, timeout=3600)
    if r.error or r.violated:
        raise Infra("scenario emission failed: %s" % (r.error or r.violated))
    scns, seen = [], set()
    for x in r.records:
        k = json.dumps(x, sort_keys=True)
        if x.get("t") == "SCN" and k not in seen:
            seen.add(k)
            scns.append(x)
    # the rotation histories no test performs are always included, and the first-ever Apply over a tampered staging ref
    scns += [{"t": "SCN", "ops": [{"op": "Init", "s": "a"}, {"op": "TamperStaging"}, {"op": "Apply"}]},
             {"t": "SCN", "ops": [{"op": "Init", "s": "a"}, {"op": "AddRootKey", "s": "a", "k": "b"}, {"op": "TamperStaging"}, {"op": "Apply"},
                                  {"op": "Discard"}]},
             {"t": "SCN", "ops": [{"op": "Init", "s": "a"}, {"op": "Apply"}, {"op": "AddRootKey", "s": "a", "k": "b"},
                                  {"op": "RemoveRootKey", "s": "b", "k": "a"}, {"op": "Apply"}]},
             {"t": "SCN", "ops": [{"op": "Init", "s": "a"}, {"op": "Apply"}, {"op": "AddRootKey", "s": "a", "k": "b"},
                                  {"op": "AddRootKey", "s": "b", "k": "a"}, {"op": "Apply"}]},
             {"t": "SCN", "ops": [{"op": "Init", "s": "a"}, {"op": "Apply"}, {"op": "AddRootKey", "s": "a", "k": "b"},
                                  {"op": "SignRoot", "s": "b"}, {"op": "Apply"}, {"op": "TamperStaging"}, {"op": "Apply"}]}]
    scn_path = os.path.join(ctx.scratch, "scn.ndjson")
    write_ndjson(scn_path, scns)
    trace = os.path.join(ctx.scratch, "trace.ndjson")
    run_vh(ctx, ["policyapply", "-scn", scn_path, "-out", trace, "-seed", ctx.seed, "-n", 80 if q else 600], timeout=7200)
    # keep the fixed witnesses in the sample: they were appended last, re-run them explicitly
    wit = os.path.join(ctx.scratch, "wit.ndjson")
    write_ndjson(wit, scns[-5:])
    trace2 = os.path.join(ctx.scratch, "trace2.ndjson")
    run_vh(ctx, ["policyapply", "-scn", wit, "-out", trace2, "-seed", ctx.seed], timeout=3600)
    allt = os.path.join(ctx.scratch, "all.ndjson")
    n = 0
    with open(allt, "w") as f:
        for p in (trace, trace2):
            for rr in read_ndjson(p):
                n += 1
                rr["id"] = n
                f.write(json.dumps(rr, separators=(",", ":")) + "\n")
    cls = validate_trace(ctx, "Trace_PolicyApply", allt, {"Known": known, "AsBuilt": asbuilt}, shards=4)
    lines = {x["id"]: x for x in read_ndjson(allt)}
    tally = Tally(ctx)
    for rec in cls:
        if rec["err"]:
            raise Infra("harness could not run scenario %d: %s" % (rec["id"], rec["err"]))
        x = rec["r"]
        item = None
        if x["cls"] != "conform":
            ln = lines[rec["id"]]
            item = {"why": x.get("why"), "ops": ln["scn"]["ops"], "steps": ln["steps"]}
        tally.add(x["cls"], item, dev=x.get("dev"), nontrivial_key=rec["id"] if rec["n"] > 2 else None)
    return finish(ctx, tally, samples=[{"ops": scns[0]["ops"]}, {"ops": scns[-1]["ops"]}], traces=len(cls),
                  assumptions=["operations run through experimental/gittuf.Repository on real on-disk Git repositories with ssh "
                               "signers read from key files (ssh-keygen); root edits only (rule-file keys, rules and global rules "
                               "edits are not in the operation alphabet yet)", "a seeded sample of the emitted histories is replayed"])


# ---------------------------------------------------------------------------
# C08  verdicts depend only on the log: never on cache, repetition or checkpoint

CACHE_DEVS = {"StaleCachePolicyLookup", "LatestOnlySetsCheckpoint", "CheckpointIgnoresLaterRevocations"}


def c08(ctx):
    q = ctx.quick()
    known, asbuilt = devsets("C08")
    asbuilt = (asbuilt & (CACHE_DEVS | VERIFY_DEVS)) | known
    mod = 29 if q else 101
    consts = {"MaxLen": 6 if q else 7, "Dev": set(), "AsBuilt": asbuilt, "EmitMod": mod, "EmitRes": ctx.seed % mod}
    mc = _model_check_with_override(ctx, "MC_VerifyCache", dict(constants=consts, invariants=["CacheInvisible"], view="View", constraints=["Emit"]),
                                    {"Pol": "MCPol"})
    pol = [r for r in mc.records if r.get("t") == "POL"][:1]
    scns, seen = [], set()
    for x in mc.records:
        k = json.dumps(x, sort_keys=True)
        if x.get("t") == "SCN" and k not in seen:
            seen.add(k)
            scns.append(x)
    def reft_(s, par):
        return {"a": "grow", "e": {"k": "ref", "ref": "main", "s": s, "tree": 1, "par": par, "v": "", "tg": [], "apps": [], "crs": []}}

    def ann_(pos):
        return {"a": "grow", "e": {"k": "ann", "tg": [pos], "s": "p1", "ref": "", "tree": 0, "par": 0, "v": "", "apps": [], "crs": []}}

    # the checkpoint witness is always replayed
    def ref(s, par):
        return {"a": "grow", "e": {"k": "ref", "ref": "main", "s": s, "tree": 1, "par": par, "v": "", "tg": [], "apps": [], "crs": []}}
    scns.append({"t": "SCN", "acts": [ref("p3", 0), ref("p1", 2), {"a": "populate"}, {"a": "verify", "mode": "full", "ref": "main"},
                                      {"a": "verify", "mode": "latest", "ref": "main"}, {"a": "verify", "mode": "full", "ref": "main"}]})
    # a checkpoint followed by the revocation of an entry before it (TLC's 7-action counterexample to the ideal cache)
    scns.append({"t": "SCN", "acts": [{"a": "populate"}, reft_("p1", 0), reft_("p3", 2), ann_(3), reft_("p1", 3),
                                      {"a": "verify", "mode": "full", "ref": "main"}, ann_(2), {"a": "verify", "mode": "full", "ref": "main"}]})
    # recovery histories beyond the exhaustive bound, with the cache populated at every point and verification repeated: a revoked
    # violation, optionally a second violation that is not revoked, the fix, then two or three full verifications
    def reft(s, par, tree):
        return {"a": "grow", "e": {"k": "ref", "ref": "main", "s": s, "tree": tree, "par": par, "v": "", "tg": [], "apps": [], "crs": []}}

    def ann(pos):
        return {"a": "grow", "e": {"k": "ann", "tg": [pos], "s": "p1", "ref": "", "tree": 0, "par": 0, "v": "", "apps": [], "crs": []}}
    vf = {"a": "verify", "mode": "full", "ref": "main"}
    for second_bad in (False, True):
        for pop_at in range(0, 6):
            acts = [reft("p1", 0, 1), reft("p3", 2, 2), ann(3)]           # log positions: 1 policy, 2 good, 3 violation, 4 its revocation
            if second_bad:
                acts.append(reft("p3", 3, 2))                              # 5: a second violation nobody revokes
            acts.append(reft("p1", 5 if second_bad else 3, 1))             # the fix restores the good tree
            acts = acts[:min(pop_at, len(acts))] + [{"a": "populate"}] + acts[min(pop_at, len(acts)):]
            scns.append({"t": "SCN", "acts": acts + [vf, vf, {"a": "verify", "mode": "latest", "ref": "main"}, vf]})
    if not pol or not scns:
        raise Infra("TLC emitted no scenarios")
    d = ctx.sub("c08")
    write_ndjson(os.path.join(d, "pol.ndjson"), pol)
    write_ndjson(os.path.join(d, "scn.ndjson"), scns)
    trace = os.path.join(d, "trace.ndjson")
    run_vh(ctx, ["verifycache", "-scn", os.path.join(d, "scn.ndjson"), "-aux", os.path.join(d, "pol.ndjson"), "-out", trace, "-seed", ctx.seed,
                 "-n", 0 if q else 50000])
    cls = validate_trace(ctx, "Trace_VerifyCache", trace, {"Known": known, "AsBuilt": asbuilt}, extra_cfg={"overrides": {"Pol": "TracePol"}},
                         files=[("pol.ndjson", os.path.join(d, "pol.ndjson"))])
    lines = None
    tally = Tally(ctx)
    for rec in cls:
        if rec["err"]:
            raise Infra("harness could not run scenario %d: %s" % (rec["id"], rec["err"]))
        x = rec["r"]
        item = None
        if x["cls"] != "conform":
            if lines is None:
                lines = {y["id"]: y for y in read_ndjson(trace)}
            ln = lines[rec["id"]]
            item = {"why": x.get("why"), "acts": ln["scn"]["acts"], "steps": ln["steps"]}
        tally.add(x["cls"], item, dev=x.get("dev"), nontrivial_key=rec["id"])
    return finish(ctx, tally, samples=[{"acts": scns[len(scns) // 2]["acts"]}], traces=len(cls),
                  assumptions=["the persistent cache lives in refs/local/gittuf/persistent-cache of the harness' in-memory store; every Verify is "
                               "also run on a copy of the repository without that ref", "principals share no keys; policy entries are chain-valid; "
                               "one reference; from-entry checkpoints are exercised through the cache's last-verified entry"])


CHECKS = {
    "C08": c08,
    "C12": c12,
    "C10": c10,
    "C18": c18,
    "C15": c15,
    "C20": c20,
    "C13": c13,
    "C01": c01,
    "C02": c02,
    "C09": c09,
    "C19": c19,
    "C07": c07,
    "C11": c11,
    "C06": c06,
    "C05": c05,
    "C16": c16,
    "C03": c03,
    "C17": c17,
    "C14": c14,
    "C04": c04,
}
