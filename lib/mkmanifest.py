#!/usr/bin/env python3
"""Regenerates MANIFEST.json from the table below (single source of truth)."""
import json
import os

VERIF = os.path.dirname(os.path.dirname(os.path.abspath(__file__)))

TECH = "explicit TLA+ spec; TLC bounded model check (Layer I refines Layer D) + TLC-generated scenarios replayed into the real code + TLC trace validation of the recorded observations"

# id -> (spec modules, level text, level note, design ref)
CLAIMED = {
    "C04": ("RSL.tla, MC_RSLQuery.tla, Trace_RSLQuery.tla",
            "TLC enumerates every chain up to the length bound (incl. legacy numbering, annotations, propagation entries and all single-point corruptions) and proves the coded walkers equal the set-comprehension scan for the whole option space; every chain is rebuilt as real Git-format commits, pkg/rsl answers a seeded sample of the option space on it, and TLC judges every answer against the scan definition and the fail-closed rule.",
            "Trusted: TLC, the harness' in-memory Git-format object store and its independent entry serialiser; options sampled per chain (seeded) rather than exhaustively in the quick tier.",
            "DESIGN.md section 4 C04"),
    "C14": ("EntryCodec.tla, MC_EntryCodec.tla, Trace_EntryCodec.tla",
            "TLC enumerates every line-token text up to the body bound for the three entry kinds and proves the coded parser state machines accept exactly the texts with each security-relevant field once, in order and well formed (ParseI = ParseD), idempotence of parse-serialise-parse and round trip of every recordable entry; every emitted token text is rendered to bytes (seeded surface variants) and parsed by rsl.ParseEntryText, entries are recorded through the real writers and read back, fuzzed byte strings are projected to tokens, and TLC judges every observation (no panic, fields equal the definition, canonical text reparses to the same entry and message).",
            "Exhaustive at token level only; byte level is sampled. pem.Decode is opaque. The harness lexer (text -> tokens) is trusted.",
            "DESIGN.md section 4 C14"),
    "C03": ("RSL.tla, Writers.tla, MC_Writers.tla (Mode=seq), Trace_Writers.tla, AutoSkip.tla, MC_AutoSkip.tla, Trace_AutoSkip.tla",
            "TLC explores every sequence of recording operations (reference, propagation, annotation incl. refused targets, policy staging, apply, attestation commit) up to the bound from empty, numbered and legacy starting logs and checks single chain, numbering, exactly-once/no-ghost, annotation guard, walkability and the append-only action property; every terminal history is replayed through the real writers and the log re-read by an independent walker is judged by TLC against the same predicates and compared with the model's final state. The automatic skip after a history rewrite is specified separately (AutoSkip.tla: commits on history lines, entries of two references, annotations): TLC checks that it appends at most one annotation naming only rewritten entries of the repaired reference, every log up to the bound is built with real commits and SkipAllInvalidReferenceEntriesForRef is run for both references.",
            "Replay uses the harness' in-memory Git-format store.",
            "DESIGN.md section 4 C03"),
    "C17": ("RSL.tla, Writers.tla, MC_Writers.tla (Mode=conc2/conc3), Trace_Writers.tla",
            "TLC explores all interleavings, at the granularity of reference reads / tip read / compare-and-set, of 2-3 concurrent record / annotate / branch-commit operations and checks exactly-once, no ghost entries, single chain, consecutive unique numbers and walkability; one schedule per distinct terminal state is replayed with real goroutine writers gated call by call on one shared store, and TLC re-runs each recorded schedule through the specification and judges the final log.",
            "Replay is on the in-memory store (real-process runs on an on-disk repository are part of the thorough tier when built); one schedule per distinct terminal state, not every interleaving, is replayed.",
            "DESIGN.md section 4 C17"),
    "C05": ("Signatures.tla, MC_Signatures.tla, Trace_Signatures.tla",
            "TLC enumerates every verifier input within the bounds (principals with 1-2 shared or disjoint keys, thresholds 0..5, every Git signer, every subset of valid envelope signers, junk signatures) and proves that the coded two-pass counting, for every iteration order, respects the counting rules (only trusted signers, at most a maximum matching of principals to distinct keys, at most one credit for the Git signature, exactness without shared keys, never satisfied below threshold 1); the inputs are materialised as real signed metadata, SSH-signed commits and DSSE envelopes, SignatureVerifier.Verify is called, and TLC accepts a result iff some iteration order explains it and it satisfies the rules.",
            "SSH keys only; the exhaustive (global-rule) verifier is covered with C11.",
            "DESIGN.md section 4 C05"),
    "C16": ("Faults.tla, MC_Faults.tla, Trace_Faults.tla",
            "TLC checks, for every operation x starting state x fault/crash point of the matrix, that the rollback programs satisfy the post-conditions (error reported, valid chain of whole entries, managed refs unchanged or in sync, retry reaches the uninterrupted state); the real operations are run on every call index of their actual storage-call sequence with the k-th call failing and with the operation abandoned after the k-th call, and TLC judges the states re-read through a fresh handle.",
            "Faults are injected at the gitstore.Storer boundary of the in-memory store; the diverged ReconcileStaging case and post-crash verification verdicts are not yet compared.",
            "DESIGN.md section 4 C16"),
    "C06": ("Delegations.tla, MC_Delegations.tla, Trace_Delegations.tla",
            "TLC enumerates every delegation graph within the bounds (incl. terminating flags, the loadable cycle through a rule named like the primary file, and duplicate-name diamonds refused at load) and proves the coded grouped work-queue consults exactly the documented set, each rule once, and halts within the step bound; graphs are materialised as real v01/v02 rule files with git:/file: patterns, FindVerifiersForPath is called for a covering set of paths, and TLC compares names, thresholds and principals of the returned verifiers with the documented walk.",
            "Bounds: at most 3 files and 3 rules in total exhaustively; pattern semantics limited to literal / prefix-glob / catch-all (table checked against fnmatch).",
            "DESIGN.md section 4 C06"),
    "C01": ("Verify.tla, MC_Verify.tla (families core/recovery/global/nopolicy/window/tworec/long), Trace_Verify.tla",
            "TLC enumerates every log up to the family bounds (policy updates, pushes by authorised / de-authorised / unknown / no key, approvals bound to a change, skip annotations, propagation and staging entries, force pushes, global rules) and proves that the coded entry-queue workflow without deviations returns exactly the documented verdict (every unrevoked entry authorised by the policy state immediately preceding it, repaired violations need an authorised fix); sampled logs are concretised into real repositories (signed metadata, SSH-signed entries and commits, real attestations), VerifyRefFull runs, and TLC judges verdict and tip; accepted-but-unauthorised histories are attributed to listed deviations or reported. Beyond the exhaustive bounds, shape-guided families (a policy change between a revoked violation and its fix; two recoveries) are enumerated completely and random histories of 14 entries are generated by TLC in simulation mode, with the refinement invariants evaluated on every state visited and every complete history replayed.",
            "Principals hold one key each; policy chains are valid (C02); two references, thresholds 1..2, one delegation level in the model's policy table; replay is on the in-memory store.",
            "DESIGN.md section 4 C01"),
    "C07": ("Verify.tla (recovery sub-machine), MC_Verify.tla (recovery/core/window/tworec/long), Trace_Verify.tla (Prop=C07)",
            "TLC enumerates logs in which entries are independently valid or violating, skipped by annotations placed anywhere later (one annotation possibly covering two entries), tree-same or not to the last good state, interleaved with policy and attestation entries, and proves the coded recovery loop (as built: fix not re-verified) tolerates exactly the violations that are revoked and repaired as documented; sampled logs are replayed against VerifyRefFull and judged by TLC.",
            "Same concretisation limits as C01.",
            "DESIGN.md section 4 C07"),
    "C11": ("Verify.tla (global-rule stage), MC_Verify.tla (family global, C11Mono), Trace_Verify.tla (Prop=C11)",
            "TLC checks over every log of the global family that global rules are enforced (threshold over all principals, block-force-push against the previous unskipped state, also where no delegation rule protects the reference) and that stripping the global rules from every policy never turns an accepted history into a rejected one; sampled histories are replayed on twin repositories (with and without the global rules) and TLC judges both verdicts.",
            "Controller-declared global rules are not concretised (own root only).",
            "DESIGN.md section 4 C11"),
    "C02": ("Verify.tla (PoliciesOK, LoadStateOK, modes), MC_Verify.tla (family chain, C02Refines), Trace_Verify.tla (Prop=C02)",
            "TLC enumerates logs whose policy entries are independently chain-valid / self-valid at every position relative to the reference entries and proves, for full, latest-only and from-entry verification, that the coded workflow fails whenever a policy entry it depends on breaks the chain of trust or self-validity and that the modes agree; the logs are concretised with real defective metadata (root replaced by a key the previous root did not sign for, version rollback, primary rule file signed by a stranger) and all modes are run and judged by TLC.",
            "Chain / self validity are abstracted to two flags per policy entry, realised by three concrete defects; delegated rule files and VerifyMergeable are not exercised here.",
            "DESIGN.md section 4 C02"),
    "C09": ("Verify.tla (Approvers upper/lower bound, VerifyEntryI), MC_Verify.tla (family approvals), Trace_Verify.tla (Prop=C09)",
            "TLC enumerates attestation states holding authorizations and code-review approvals stored at matching or mismatching paths, whose signed statements name the change or another one, signed by trusted / untrusted principals and by the app's key or a stranger, for trusted and untrusted apps, and proves that what the coded lookup counts lies between the approvals bound to the change at its own path and the statement-bound approvals stored anywhere; the states are written as raw blobs into refs/gittuf/attestations (bypassing the validating setters) and VerifyRefFull is judged by TLC.",
            "One pending change of one reference per attestation state; dismissed approvers disjoint from approvers; tags not covered.",
            "DESIGN.md section 4 C09"),
    "C13": ("Metadata.tla, MC_Metadata.tla, Trace_Metadata.tla",
            "TLC explores every sequence of rule-file and root edits with valid and invalid arguments up to the bound and proves well-formedness inductive over accepted edits and refused edits without effect; one history per distinct state is replayed on tufv02 and tufv01 objects, and TLC checks after every edit the acceptance, the well-formedness of the observed metadata and the equality of the live, reloaded and migrated projections.",
            "Rule-name uniqueness across files, propagation directives and controller/network edits are not modelled yet.",
            "DESIGN.md section 4 C13"),
    "C20": ("Sandbox.tla, MC_Sandbox.tla, Trace_Sandbox.tla, MC_HookSel.tla, Trace_HookSel.tla",
            "TLC checks that the construction sequence of the sandbox (open libraries, remove globals and members, protect tables, register APIs) leaves only pure library members, inert data and registered APIs reachable, with every library table protected, and that omitting any single effective step breaks this; the real environment is walked from the Go side and compared with the model's closure, and every program of the escape / table-write / non-termination / return-value grammar is rendered to Lua and run through RunScript with a 1 s timeout under a hard outer deadline, TLC judging denial, deadline and exit code. Hook selection (MC_HookSel.tla, Trace_HookSel.tla): every set of up to 2-3 hooks over two stages and three principals (one a person with two keys) is built as a policy in a real repository and InvokeHooksForStage is called with every key; TLC judges that exactly the hooks assigned to the key's owner for the stage ran.",
            "Purity of allow-listed functions trusted; pre-push stage declared but not invoked; needs the verif accessor for the interpreter state.",
            "DESIGN.md section 4 C20"),
    "C12": ("PolicyApply.tla, MC_PolicyApply.tla, Trace_PolicyApply.tla",
            "TLC explores every sequence of root-of-trust edits by root principals and outsiders, signatures, apply, discard and direct tampering with the policy / staging refs up to the bound and checks that only Apply moves the policy ref, only to a self-valid staged descendant, never when a ref is out of sync, that outsiders cannot edit the root and that whatever Apply publishes stays loadable; emitted histories are replayed through experimental/gittuf.Repository on real Git repositories and TLC judges what was observed after every step.",
            "Root edits only; real git with ssh-keygen based signers, so the replayed sample is small in the quick tier.",
            "DESIGN.md section 4 C12"),
    "C08": ("Verify.tla, VerifyCache.tla, MC_VerifyCache.tla, Trace_VerifyCache.tla",
            "TLC explores every sequence of Grow / Populate / Delete / Verify(full, latest) actions up to the bound and proves that with an ideal cache (complete policy lookup, checkpoints only from full verification) every Verify answers what the cache-less verifier answers; action sequences are replayed on a real repository whose every Verify is also run on a cache-less copy, with all references listed before and after, and TLC judges equality of verdict and tip, requires the cache-less copy's own answer to be the model's as well, and attributes differences to the listed cache deviations; histories with revoked policy entries are always replayed, and recovery histories beyond the bound (violation, revocation, optional second violation, fix, repeated verification, cache populated at every point) are replayed as fixed shapes.",
            "One reference, key-disjoint principals, chain-valid policies; the attestation index of the cache is modelled but not stressed.",
            "DESIGN.md section 4 C08"),
    "C10": ("Trees.tla, MC_Trees.tla, Trace_Trees.tla",
            "TLC enumerates commit graphs (root, linear, two new commits, side-branch merges, merge back of an ancestor, merge of unrelated history) over trees of three path atoms, every signer assignment and every rule extent, proves that the matcher as designed refines the declarative file rule and that a net change of a protected path is always vouched for by an authorised signer (and that the documented merge exemption is exactly what this needs as a proviso); a seeded sample is built with odd concrete path names (space, tab, quote, backslash, control, UTF-8, DEL, glob metacharacters) in real on-disk repositories, and TLC judges the verdict of the real verifier and what GetFilePathsChangedByCommit, GetAllFilesInTree, GetEntriesInTree, GetPathIDInTree and WriteTree returned for the written paths.",
            "File rules with threshold 1 (no approvals); newline excluded (as in the property); sampled, not exhaustive, on the real-Git side.",
            "DESIGN.md section 4 C10"),
    "C15": ("Reconcile.tla, MC_Reconcile.tla, Trace_Reconcile.tla",
            "TLC enumerates every pair of logs sharing a prefix with local-only and remote-only suffixes of reference entries (new commits or resets to earlier ones), propagation entries, skip annotations and plain notes (naming shared or local-only entries) on two references, and proves that re-recording as designed yields exactly the remote log followed by the local-only entries with their meaning (same reference and target, annotations still naming - and still skipping - the re-recorded counterparts), refuses conflicts without effect, and that synchronisation under every branch placement and both overwrite settings moves references only to recorded states, never rewinds unless told to, only extends the remote log and publishes entries together with their references; the log pairs are built in two real repositories, ReconcileLocalRSLWithRemote and Sync run through experimental/gittuf, and TLC judges the logs and references read back.",
            "Bare repositories over the file transport, unsigned entries, no tags; a sampled subset is replayed on real Git.",
            "DESIGN.md section 4 C15"),
    "C18": ("Propagation.tla, MC_Propagation.tla, Trace_Propagation.tla",
            "TLC explores every sequence of upstream commits, upstream revocations, downstream edits (outside and inside the downstream path) and propagation calls with one or two directives up to the bound, and proves that the algorithm as designed does what the declarative layer says (exact subtree, frame, entry names upstream location and entry, no-op when already there) and that repeating a call changes nothing; emitted sequences are replayed on pairs of real on-disk repositories with concrete, partly odd, path names and file modes, and TLC replays the model alongside and judges tree (path, blob, mode), commit count and propagation entries after every action.",
            "Bare repositories; downstream/upstream path being a file not covered; the executable-bit / symlink loss is a recorded finding.",
            "DESIGN.md section 4 C18"),
    "C19": ("Verify.tla (MergePredictI, MergeIdeal, MergeAgrees), MC_Verify.tla (family merge, C19Agrees), Trace_Verify.tla (Prop=C19)",
            "TLC enumerates policies with delegation thresholds 1..3 and a global threshold rule, approvals by every subset of principals bound to the predicted change, and feature trees, and proves that the ideal prediction agrees with verification of the merge for every recorder (authorised, already counted, unauthorised, unknown key, unsigned); on real repositories VerifyMergeableForCommit is asked, then every recorder records the merge on a copy and verifies it, and TLC judges the agreement and attributes disagreements to the listed deviations.",
            "Fast-forward merges only (the recorded commit carries the predicted tree). With file rules the question is asked for the commit graphs of MC_Trees on real repositories (unprotected branch, so that only the file rule decides) before the commits are recorded and compared with verification afterwards; attestation states mix authorizations and code-review approvals.",
            "DESIGN.md section 4 C19"),
}

NOT_YET = {
}

ALL = ["C%02d" % i for i in range(1, 21)]


def main():
    checks = []
    for pid in ALL:
        if pid not in CLAIMED:
            continue
        mods, text, note, ref = CLAIMED[pid]
        checks.append({
            "property_id": pid,
            "quick_cmd": "bin/check %s quick" % pid,
            "thorough_cmd": "bin/check %s thorough" % pid,
            "evidence_file": "/verif/evidence/%s.json" % pid,
            "replay_cmd_template": "cat {path}  # then: VERIF_SEED=<seed in file> bin/check %s <tier in file>" % pid,
            "engine": "tlc+vh",
            "level_claimed": {"category": "model_checking", "text": text, "design_ref": ref},
            "level_note": note,
            "technique": TECH + " (" + mods + ")",
        })
    na = [{"property_id": p, "reason": NOT_YET.get(p, "check not built yet in this session; it will be decided with the TLA+ specification as laid out in DESIGN.md section 4 (no other technique is substituted)")}
          for p in ALL if p not in CLAIMED]
    hooks_commits = []
    hc = os.path.join(VERIF, "hooks_commits.txt")
    if os.path.exists(hc):
        hooks_commits = [l.strip() for l in open(hc) if l.strip()]
    m = {
        "version": 1,
        "setup_cmd": "sh bin/setup",
        "hooks": {
            "guard": "verif",
            "enable": "go build -tags verif (the harness module /verif/harness replaces github.com/gittuf/gittuf with /repo and is rebuilt by every check)",
            "baseline_off_cmd": "sh /verif/bin/baseline_off",
            "source_commits": hooks_commits,
            "add_only": True,
        },
        "engines": [
            {"name": "tlc+vh", "path": "/verif/lib/vcheck.py", "serves_properties": sorted(CLAIMED.keys()),
             "kind_free_text": "TLC 1.8.0 on /verif/spec/*.tla (model check, scenario emission, trace validation) + Go conformance harness /verif/harness (cmd/vh) built against /repo's working tree"},
        ],
        "checks": checks,
        "not_applicable": na,
        "notes": "All properties are decided with the explicit TLA+ specification under /verif/spec. Exit 2 = infrastructure problem, never a verdict.",
    }
    with open(os.path.join(VERIF, "MANIFEST.json"), "w") as f:
        json.dump(m, f, indent=1)
        f.write("\n")


if __name__ == "__main__":
    main()
