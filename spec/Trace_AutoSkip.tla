---------------------------- MODULE Trace_AutoSkip ----------------------------
(* Each line: a log built on the harness' store with real commits, then         *)
(* SkipAllInvalidReferenceEntriesForRef(ref); the log is read back.             *)
EXTENDS AutoSkip, Json, SequencesExt
CONSTANTS Known, AsBuilt
TL == ndJsonDeserialize("trace.ndjson")
VARIABLE l

LogOf(es) == [i \in DOMAIN es |-> [k |-> es[i].k, ref |-> es[i].ref, t |-> [e |-> es[i].e, n |-> es[i].n], tg |-> ToSet(es[i].tg)]]
\* observed suffix: the entries appended by the call, as [k, tg]
Explains(x, S) ==
    LET lg == LogOf(x.log) a == AutoSkip(lg, x.ref, S) IN
    /\ (x.res = "ok") = (a.res = "ok")
    /\ Len(x.appended) = Len(a.app)
    /\ \A i \in DOMAIN a.app : x.appended[i].k = "ann" /\ ToSet(x.appended[i].tg) = a.app[i].tg /\ x.appended[i].skip
    /\ x.prefixkept /\ x.numok
Classify(x) ==
    IF x.err # "" THEN [cls |-> "infra", why |-> x.err]
    ELSE IF Explains(x, {}) THEN [cls |-> "conform"]
    ELSE LET Ss == {S \in SUBSET AsBuilt : S # {} /\ Explains(x, S)} IN
         IF Ss # {} THEN [cls |-> "known", dev |-> CHOOSE S \in Ss : TRUE]
         ELSE IF x.prefixkept /\ x.numok /\ Len(x.appended) <= 1
              THEN [cls |-> "safe", why |-> "names other entries than the model, but the log stays one consecutively numbered chain with at most one new entry"]
         ELSE [cls |-> "violation", why |-> "automatic skip broke the chain, the numbering, or appended more than it reports"]
Init == l = 1
Next == /\ l <= Len(TL)
        /\ PrintT(ToJson([t |-> "CLS", id |-> TL[l].id, r |-> Classify(TL[l])]))
        /\ l' = l + 1
Spec == Init /\ [][Next]_l
=============================================================================
