--------------------------- MODULE Trace_Writers ---------------------------
(***************************************************************************)
(* Trace validation for the RSL writers (C03 sequential, C17 concurrent).  *)
(* A line is one scenario (starting log, jobs per writer, schedule of      *)
(* gate steps) together with what the real writers did when driven through *)
(* exactly that schedule on one shared object store: result per job, the   *)
(* final log re-read by the independent walker, state of managed branches. *)
(***************************************************************************)
EXTENDS Writers, Json

CONSTANTS Known,    \* deviations listed as findings for this property
          AsBuilt   \* all deviations the current tree is believed to have (superset of Known)

TL == ndJsonDeserialize("trace.ndjson")
VARIABLE l

NormE(e) == [k |-> e.k, ref |-> e.ref, t |-> 0, up |-> "", tg |-> e.tg, skip |-> e.skip, num |-> e.num,
             xp |-> ("np" \in DOMAIN e /\ e.np > 1), w |-> e.w, j |-> e.j]
NormC(c) == [i \in DOMAIN c |-> NormE(c[i])]
Key(e)   == <<e.k, e.ref, e.num, e.tg, e.skip, e.w, e.j>>
ChainEq(a, b) == Len(a) = Len(b) /\ \A i \in DOMAIN a : Key(a[i]) = Key(b[i])

Ws(scn) == DOMAIN scn.jobs
St0(scn) == [InitState(Ws(scn), NormC(scn.init)) EXCEPT !.jobs = [w \in Ws(scn) |-> scn.jobs[w]]]

Explains(scn, obs, d) ==
    LET f == RunSched(St0(scn), scn.sched, d) IN
    /\ obs.followed
    /\ \A w \in Ws(scn) : f.pc[w] = "idle"
    /\ ChainEq(f.chain, NormC(obs.chain))
    /\ \A w \in Ws(scn) : f.res[w] = (IF w \in DOMAIN obs.res THEN obs.res[w] ELSE <<>>)

ObsRes(scn, obs) == [w \in Ws(scn) |-> IF w \in DOMAIN obs.res THEN obs.res[w] ELSE <<>>]

DOK(scn, obs) ==
    LET c == NormC(obs.chain) IN
    /\ LogOK(c, ObsRes(scn, obs), scn.jobs)
    /\ \A w \in Ws(scn) : Len(ObsRes(scn, obs)[w]) = Len(scn.jobs[w])      \* every operation returned
    /\ Len(c) >= Len(scn.init) /\ ChainEq(SubSeq(c, 1, Len(scn.init)), NormC(scn.init))   \* earlier tips remain ancestors
    /\ \A i \in DOMAIN c : ~c[i].xp /\ c[i].k # "garb"
    /\ (scn.mode = "seq" => \A r \in DOMAIN obs.bref : obs.bref[r] \in {0, 1})

Classify(scn, obs) ==
    IF DOK(scn, obs)
    THEN IF Explains(scn, obs, AsBuilt) \/ Explains(scn, obs, {}) THEN [cls |-> "conform"]
         ELSE [cls |-> "safe", why |-> obs.why]
    ELSE LET S == {d \in SUBSET AsBuilt : d \cap Known # {} /\ Explains(scn, obs, d)} IN
         IF S # {} THEN [cls |-> "known", dev |-> CHOOSE d \in S : \A d2 \in S : Cardinality(d) <= Cardinality(d2)]
         ELSE [cls |-> "violation", why |-> "final log or results contradict the recording properties"]

Init == l = 1
Next == /\ l <= Len(TL)
        /\ LET c == Classify(TL[l].scn, TL[l].obs) IN
           PrintT(ToJson([t |-> "CLS", id |-> TL[l].id, r |-> c, followed |-> TL[l].obs.followed,
                          n |-> Len(TL[l].obs.chain)]))
        /\ l' = l + 1
Spec == Init /\ [][Next]_l
=============================================================================
