-------------------------- MODULE Trace_Signatures --------------------------
(***************************************************************************)
(* Trace validation for C05: each line is one input given to the real      *)
(* SignatureVerifier.Verify (rule materialised as signed policy metadata,  *)
(* real SSH-signed Git object, real DSSE envelope) and what it returned.   *)
(* The result is conform when it is VerifyImpl for SOME iteration order.   *)
(***************************************************************************)
EXTENDS Signatures, Json

CONSTANTS Known, AsBuilt
TL == ndJsonDeserialize("trace.ndjson")
VARIABLE l

ToS(seq) == {seq[x] : x \in DOMAIN seq}
In(scn) == [pr |-> ToS(scn.pr), keys |-> [p \in ToS(scn.pr) |-> ToS(scn.keys[p])], thr |-> scn.thr, exh |-> scn.exh,
            g |-> scn.g, env |-> scn.env, sigs |-> ToS(scn.sigs), junk |-> scn.junk, nsig |-> scn.nsig]
Obs(o) == [res |-> o.res, pr |-> ToS(o.pr)]

Same(a, b) == a.res = b.res /\ (a.res \in {"ok", "unmet"} => a.pr = b.pr)

Classify(scn, o) ==
    LET in == In(scn) r == Obs(o) IN
    IF o.res \in {"panic", "setup"} THEN [cls |-> "violation", why |-> o.res]
    ELSE IF CountOK(in, r) /\ (r.res = "error" => \E x \in Outcomes(in) : x.res = "error")
    THEN IF \E x \in Outcomes(in) : Same(x, r) THEN [cls |-> "conform"] ELSE [cls |-> "safe", why |-> "no iteration order yields this result"]
    ELSE [cls |-> "violation", why |-> "result contradicts the counting rules"]

Init == l = 1
Next == /\ l <= Len(TL)
        /\ PrintT(ToJson([t |-> "CLS", id |-> TL[l].id, r |-> Classify(TL[l].scn, TL[l].obs), res |-> TL[l].obs.res,
                          nt |-> (TL[l].obs.res \in {"ok", "unmet"} /\ TL[l].scn.env)]))
        /\ l' = l + 1
Spec == Init /\ [][Next]_l
=============================================================================
