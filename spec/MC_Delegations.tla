--------------------------- MODULE MC_Delegations ---------------------------
(***************************************************************************)
(* All delegation graphs up to the bounds (files, rules per file, total    *)
(* rules), including the only cycle a loadable policy can express (a rule  *)
(* named like the primary file inside a delegated file) and graphs refused *)
(* at load because two rules share a name (diamonds).                      *)
(***************************************************************************)
EXTENDS Delegations, Json

CONSTANTS MaxFiles, MaxPerFile, MaxTotal, EmitMod, EmitRes
VARIABLES g

DFiles == {"d1", "d2", "d3"}
Names  == DFiles \cup {Primary, "a", "b"}
Rule(n, p, t) == [name |-> n, pat |-> p, pr |-> {"p1"}, thr |-> 1, term |-> t]
Rules == {Rule(n, p, t) : n \in Names, p \in Patterns, t \in BOOLEAN}

Total(gr) == NRules(gr) - Cardinality(DOMAIN gr)
Init == g = (Primary :> <<>>)
AddFile == /\ Cardinality(DOMAIN g) < MaxFiles
           /\ LET d == <<"d1", "d2", "d3">>[Cardinality(DOMAIN g)] IN      \* files appear in name order (symmetry)
                 g' = (d :> <<>>) @@ g
AddRule == /\ Total(g) < MaxTotal
           /\ \E f \in DOMAIN g : /\ Len(g[f]) < MaxPerFile
                                  /\ \E r \in Rules : g' = [g EXCEPT ![f] = Append(@, r)]
Next == AddFile \/ AddRule
Spec == Init /\ [][Next]_g

Refines == LoadOK(g) => IRefinesD(g)

Weight == LET RECURSIVE W(_)
              W(S) == IF S = {} THEN 0 ELSE LET f == CHOOSE f \in S : TRUE IN
                        Len(g[f]) * 7 + Cardinality({i \in DOMAIN g[f] : g[f][i].term}) * 3
                        + Cardinality({i \in DOMAIN g[f] : g[f][i].name \in DFiles}) * 11 + W(S \ {f})
          IN W(DOMAIN g)
Interesting == \E f \in DOMAIN g : \E i \in DOMAIN g[f] : HasFile(g, g[f][i].name)
Emit == IF (Total(g) <= 2 /\ Weight % 3 = EmitRes % 3) \/ (Interesting /\ Weight % EmitMod = EmitRes)
        THEN PrintT(ToJson([t |-> "SCN", files |-> SetToSeq(DOMAIN g),
                            g |-> [f \in DOMAIN g |-> [i \in DOMAIN g[f] |-> [name |-> g[f][i].name, pat |-> g[f][i].pat, term |-> g[f][i].term]]],
                            loadok |-> LoadOK(g)]))
        ELSE TRUE
=============================================================================
