----------------------------- MODULE VerifyCache -----------------------------
(***************************************************************************)
(* Verification with the persistent cache (internal/cache, the cache       *)
(* searcher of internal/policy/searcher.go and the cache writes of         *)
(* VerifyRelativeForRef) -- C08.                                           *)
(*                                                                         *)
(* A cache is [on, pol, att, last]: present or not, the cached positions   *)
(* of policy / attestation entries, and per reference the position of the  *)
(* last verified entry (0 = none).  A world is [log, cache].               *)
(*                                                                         *)
(* Actions: Grow(e), Populate, Delete, Verify(mode, ref).  The property:   *)
(* every Verify answers what the cache-less verifier answers on the same   *)
(* log (Layer I of Verify.tla without cache, itself refined to Layer D).   *)
(* Deviation "StaleCachePolicyLookup": the policy / attestation state      *)
(* applicable at the first verified entry is looked up in the cache only,  *)
(* so entries appended after the cache was last completed are missed.      *)
(* Deviation "LatestOnlySetsCheckpoint": latest-only (and from-entry)      *)
(* verification records the entries it verified as "last verified" for the *)
(* reference although the entries before them were never verified; a later *)
(* full verification then starts from that checkpoint.                     *)
(***************************************************************************)
EXTENDS Verify

NoCache == [on |-> FALSE, pol |-> {}, att |-> {}, last |-> [main |-> 0, feat |-> 0]]
GreatestBelow(S, i) == LET T == {x \in S : x < i} IN IF T = {} THEN 0 ELSE Max(T)

Populated(l) == [on |-> TRUE, pol |-> {i \in 1..Len(l) : l[i].k = "pol"}, att |-> {i \in 1..Len(l) : l[i].k = "att"},
                 last |-> [main |-> 0, feat |-> 0]]

\* the walk of Verify.tla, threading the cache writes: returns [res, c]
RECURSIVE WalkC(_, _, _, _, _, _, _)
RECURSIVE RecoverC(_, _, _, _, _, _, _, _, _, _)
WalkC(l, r, q, cp, ca, c, Dev) ==
    IF q = <<>> THEN [res |-> "ok", c |-> c]
    ELSE LET i == Head(q) rest == Tail(q) IN
    CASE l[i].k = "pol" ->
           IF cp # 0 /\ ~l[i].cv THEN [res |-> "policyinvalid", c |-> c]
           ELSE IF "InRangePolicyNotSelfVerified" \notin Dev /\ ~l[i].sv THEN [res |-> "policyinvalid", c |-> c]
           ELSE WalkC(l, r, rest, i, ca, [c EXCEPT !.pol = @ \cup {i}], Dev)
      [] l[i].k = "att" -> WalkC(l, r, rest, cp, i, [c EXCEPT !.att = @ \cup {i}], Dev)
      [] l[i].k = "prop" -> IF "PropagationEntryNotVerified" \in Dev THEN WalkC(l, r, rest, cp, ca, c, Dev)
                            ELSE IF cp = 0 THEN [res |-> "nopolicy", c |-> c]
                            ELSE IF VerifyEntryI(l, i, Pol[l[cp].v], ca, Dev) THEN WalkC(l, r, rest, cp, ca, c, Dev) ELSE [res |-> "vf", c |-> c]
      [] OTHER ->
           IF cp = 0 THEN [res |-> "nopolicy", c |-> c]
           ELSE IF VerifyEntryI(l, i, Pol[l[cp].v], ca, Dev)
                THEN WalkC(l, r, rest, cp, ca, [c EXCEPT !.last[r] = IF @ > i THEN @ ELSE i], Dev)
           ELSE IF ~Skipped(l, i) THEN [res |-> "vf", c |-> c]
           ELSE IF rest = <<>> THEN [res |-> "vf", c |-> c]
           ELSE LET g == LastGood(l, i) IN
                IF g = 0 THEN [res |-> "notfound", c |-> c]
                ELSE RecoverC(l, r, rest, l[g].tree, <<>>, FALSE, cp, ca, c, Dev)

RecoverC(l, r, q, goodTree, nq, badInter, cp, ca, c, Dev) ==
    IF q = <<>> THEN [res |-> "vf", c |-> c]
    ELSE LET j == Head(q) rest == Tail(q) IN
    IF ~IsFor(l[j], r) THEN RecoverC(l, r, rest, goodTree, Append(nq, j), badInter, cp, ca, c, Dev)
    ELSE IF l[j].k = "prop" THEN RecoverC(l, r, rest, goodTree, Append(nq, j), badInter, cp, ca, c, Dev)
    ELSE IF l[j].tree = goodTree /\ ~Skipped(l, j) THEN
            IF badInter THEN [res |-> "notskipped", c |-> c]
            ELSE LET c2 == [c EXCEPT !.last[r] = IF @ > j THEN @ ELSE j] IN      \* the fix becomes the last verified entry
                 IF "FixEntryNotVerified" \in Dev THEN WalkC(l, r, nq \o rest, cp, ca, c2, Dev)
                 ELSE LET cp2 == PolPosAt(l, j) ca2 == AttPosAt(l, j) IN
                      IF cp2 # 0 /\ VerifyEntryI(l, j, Pol[l[cp2].v], ca2, Dev) THEN WalkC(l, r, nq \o rest, cp, ca, c2, Dev)
                      ELSE [res |-> "vf", c |-> c]
    ELSE RecoverC(l, r, rest, goodTree, nq, badInter \/ ~Skipped(l, j), cp, ca, c, Dev)

\* VerifyRelativeForRef(first, last) with a cache
RangeC(l, r, first, last, c, Dev) ==
    LET stale == "StaleCachePolicyLookup" \in Dev
        cp == IF l[first].k = "pol" THEN first ELSE IF stale THEN GreatestBelow(c.pol, first) ELSE PolPosAt(l, first)
        ca == IF l[first].k = "att" THEN first ELSE IF stale THEN GreatestBelow(c.att, first) ELSE AttPosAt(l, first)
    IN WalkC(l, r, QueueOf(l, r, first, last), cp, ca, c, Dev)

\* Verify actions on a world w = [log, cache]: returns [res, cache]
VerifyFullC(w, r, Dev) ==
    IF ~HasEntries(w.log, r) THEN [res |-> "none", c |-> w.cache]
    ELSE IF ~w.cache.on THEN [res |-> Impl(w.log, r, Dev), c |-> w.cache]
    ELSE LET cp == w.cache.last[r]
             \* an annotation recorded after the checkpoint that names an entry at or before it changes what the entries
             \* before the checkpoint mean: the checkpoint no longer stands for a verified prefix
             stale == \E j \in (cp + 1)..Len(w.log) : w.log[j].k = "ann" /\ \E t \in w.log[j].tg : t <= cp
             first == IF cp # 0 /\ ("CheckpointIgnoresLaterRevocations" \in Dev \/ ~stale) THEN cp ELSE FirstFor(w.log, r) IN
         RangeC(w.log, r, first, LatestFor(w.log, r), w.cache, Dev)
VerifyLatestC(w, r, Dev) ==
    IF ~HasEntries(w.log, r) THEN [res |-> "none", c |-> w.cache]
    ELSE IF ~w.cache.on THEN [res |-> ImplLatest(w.log, r, Dev), c |-> w.cache]
    ELSE LET v == RangeC(w.log, r, LatestFor(w.log, r), LatestFor(w.log, r), w.cache, Dev) IN
         IF "LatestOnlySetsCheckpoint" \in Dev THEN v
         ELSE [res |-> v.res, c |-> [v.c EXCEPT !.last = w.cache.last]]      \* a partial verification is no checkpoint

\* a cache write only happens when something is worth storing
Step(w, a, Dev) ==
    CASE a.a = "grow"     -> [w |-> [w EXCEPT !.log = Append(@, a.e)], res |-> "", ref |-> ""]
      [] a.a = "populate" -> [w |-> IF w.log = <<>> THEN w ELSE [w EXCEPT !.cache = Populated(w.log)], res |-> "", ref |-> ""]
      [] a.a = "delete"   -> [w |-> [w EXCEPT !.cache = NoCache], res |-> "", ref |-> ""]
      [] a.a = "verify"   -> LET v == IF a.mode = "full" THEN VerifyFullC(w, a.ref, Dev) ELSE VerifyLatestC(w, a.ref, Dev) IN
                             [w |-> [w EXCEPT !.cache = IF w.cache.on THEN v.c ELSE w.cache], res |-> v.res, ref |-> a.ref]

\* Layer D for a verify action: the cache-less answer (which MC_Verify refines to the documented verdict)
Expected(w, a) == IF a.mode = "full" THEN Impl(w.log, a.ref, {}) ELSE ImplLatest(w.log, a.ref, {})

RECURSIVE Run(_, _, _)
Run(w, as, Dev) == IF as = <<>> THEN <<>> ELSE LET s == Step(w, Head(as), Dev) IN <<s>> \o Run(s.w, Tail(as), Dev)
=============================================================================
