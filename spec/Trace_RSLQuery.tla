-------------------------- MODULE Trace_RSLQuery --------------------------
(***************************************************************************)
(* Trace validation for the RSL readers (C04).  Each trace line is one     *)
(* chain built in a real object store plus the results pkg/rsl returned    *)
(* for a batch of queries on it.  Every result is judged against Layer D   *)
(* (the DOK operators) and compared with Layer I under known deviations.  *)
(***************************************************************************)
EXTENDS RSL, Json, TLCExt

CONSTANTS Known,       \* deviations listed as findings for this property
          AsBuilt      \* all deviations the current tree is believed to have (superset of Known)

TL == ndJsonDeserialize("trace.ndjson")

VARIABLE l

ToS(seq) == {seq[x] : x \in DOMAIN seq}

ObsEA(obs)  == [e |-> obs.e, anns |-> ToS(obs.anns)]
ObsRng(obs) == [err |-> IF obs.e < 0 THEN obs.e ELSE 0, es |-> obs.es,
                anns |-> [x \in DOMAIN obs.annS |-> ToS(obs.annS[x])]]

Opts(q) == [ref |-> q.ref, bid |-> q.bid, bnum |-> q.bnum, uid |-> q.uid, unum |-> q.unum,
            unsk |-> q.unsk, nong |-> q.nong, isref |-> q.isref, prepo |-> q.prepo]

\* result of Layer I under deviation set d, in the observation's shape
Impl(c, q, d) ==
    CASE q.op = "latest"   -> WalkLatest(c, Opts(q), d)
      [] q.op = "first"    -> WalkFirst(c, q.ref)
      [] q.op = "ngparent" -> WalkNonGittufParent(c, q.i)
      [] q.op = "range"    -> WalkRange(c, q.f, q.l, q.ref)

Shape(q, obs) == IF q.op = "range" THEN ObsRng(obs) ELSE ObsEA(obs)

DOK(c, q, ob) ==
    CASE q.op = "latest"   -> DOKLatest(c, Opts(q), ob)
      [] q.op = "first"    -> DOKFirst(c, q.ref, ob)
      [] q.op = "ngparent" -> DOKNonGittufParent(c, q.i, ob)
      [] q.op = "range"    -> DOKRange(c, q.f, q.l, q.ref, ob)

SameRes(q, a, b) ==   \* equal up to the error class
    IF q.op = "range" THEN (a.err < 0 /\ b.err < 0) \/ a = b
    ELSE (a.e < 0 /\ b.e < 0) \/ a = b

Classify(c, q, obs) ==
    LET ob == Shape(q, obs) IN
    IF obs.e = 0 - 99 THEN [cls |-> "violation", why |-> "panic"]
    ELSE IF DOK(c, q, ob)
    THEN IF SameRes(q, ob, Impl(c, q, AsBuilt)) \/ SameRes(q, ob, Impl(c, q, {}))
         THEN [cls |-> "conform"] ELSE [cls |-> "safe"]
    ELSE LET S == {d \in SUBSET AsBuilt : d \cap Known # {} /\ SameRes(q, ob, Impl(c, q, d))} IN
         IF S # {} THEN [cls |-> "known", dev |-> CHOOSE d \in S : \A d2 \in S : Cardinality(d) <= Cardinality(d2)]
         ELSE [cls |-> "violation", why |-> "contradicts Layer D"]

Judge(line) ==
    LET res == [x \in DOMAIN line.qs |-> Classify(line.chain, line.qs[x].q, line.qs[x].obs)]
        bad == {x \in DOMAIN res : res[x].cls # "conform"}
    IN [t |-> "CLS", id |-> line.id, n |-> Len(line.qs),
        conform |-> Len(line.qs) - Cardinality(bad),
        other |-> [x \in bad |-> [q |-> line.qs[x].q, obs |-> line.qs[x].obs, r |-> res[x]]]]

Init == l = 1
Next == /\ l <= Len(TL)
        /\ PrintT(ToJson(Judge(TL[l])))
        /\ l' = l + 1
Spec == Init /\ [][Next]_l
Accepted == l = Len(TL) + 1       \* POSTCONDITION-style check done by the runner on the CLS count
=============================================================================
