------------------------------- MODULE Verify -------------------------------
(***************************************************************************)
(* Policy verification of a reference over the RSL (internal/policy/       *)
(* verify.go: VerifyRefFull / VerifyRelativeForRef / verifyEntry and the   *)
(* recovery workflow) -- C01, C07, C11 (and the base of C02, C08, C09).    *)
(*                                                                         *)
(* A log is a sequence of entries, oldest first, identified by position:   *)
(*   [k |-> "pol", v, cv, sv]         policy entry for policy state v;     *)
(*        cv: its root is signed by the threshold of the replaced state's  *)
(*        root principals, versions do not decrease, no rule file vanishes *)
(*        (vacuous for the first policy entry: trust on first use);        *)
(*        sv: root self-signed, primary rule file signed as its own root   *)
(*        requires, delegated files signed as delegated, none unreachable  *)
(*   [k |-> "ref", ref, s, tree, par] reference entry signed by s; its     *)
(*        target commit has tree `tree` and parent = the target of entry   *)
(*        `par` (an earlier entry for the same ref; 0 = a root commit)     *)
(*   [k |-> "prop", ref, s, tree, par] propagation entry                   *)
(*   [k |-> "ann", tg, s]             skip annotation for the entries tg   *)
(*   [k |-> "att", apps, crs]         attestations entry; apps = the set   *)
(*        of authorizations present in that attestation state:             *)
(*        [ref, from, tree, sref, sfrom, stree, by] -- stored at the path  *)
(*        for (ref, from, tree) (from = entry whose target is the prior    *)
(*        state, 0 = none); its signed STATEMENT names (sref, sfrom,       *)
(*        stree); signed `by`.  crs = code-review approvals:               *)
(*        [ref, from, tree, sref, sfrom, stree, app, signer, approvers,    *)
(*         dismissed] stored likewise, for app `app`, envelope signed by   *)
(*        key `signer`, naming principals (by identity) as approvers       *)
(*   [k |-> "stg"]                    policy-staging entry                 *)
(* Signers: principals, "kU" (a key no policy knows), "none" (unsigned).   *)
(*                                                                         *)
(* Pol[v] describes policy state v:                                        *)
(*   rules[ref] : sequence of verifiers [pr, thr] the delegation walk      *)
(*                yields for git:ref (empty = unprotected)                 *)
(*   gthr       : set of [refs, thr] threshold global rules                *)
(*   bfp        : set of refs under a block-force-pushes global rule       *)
(*   all        : every principal the policy state defines                 *)
(*   apps       : code-review apps: name -> [trusted, key]                 *)
(*                                                                         *)
(* Layer D: Authorized / Tolerated / DVerdict.                             *)
(* Layer I: Impl -- the entry queue with its recovery loop as coded.       *)
(* Deviations:                                                             *)
(*  "PropagationEntryNotVerified"     propagation entries are skipped      *)
(*  "ExhaustiveVerifierShortCircuit"  with any global rule present the     *)
(*       all-principals verifier is tried first and its success ends the   *)
(*       search, so delegation verifiers are never evaluated               *)
(*  "FixEntryNotVerified"             the fix entry of a recovery is not   *)
(*       itself checked against policy                                     *)
(*  "CodeReviewApprovalNotRevalidated" a code-review approval found by its *)
(*       storage path is not checked to name the change being verified     *)
(*  "InRangePolicyNotSelfVerified"    only the policy state a verification *)
(*       starts from is self-verified; intermediate and in-range policy    *)
(*       states get the chain check (VerifyNewState) only                  *)
(***************************************************************************)
EXTENDS Integers, Sequences, FiniteSets, SequencesExt, FiniteSetsExt, TLC

CONSTANT Pol            \* function: policy id -> policy record

IsFor(e, r)  == e.k \in {"ref", "prop"} /\ e.ref = r
Skipped(l, i) == l[i].k = "ref" /\ \E j \in (i + 1)..Len(l) : l[j].k = "ann" /\ i \in l[j].tg

LatestBefore(l, i, P(_)) == LET S == {j \in 1..(i - 1) : P(j)} IN IF S = {} THEN 0 ELSE Max(S)
PolPosAt(l, i) == LatestBefore(l, i, LAMBDA j : l[j].k = "pol")       \* policy state immediately preceding entry i
AttPosAt(l, i) == LatestBefore(l, i, LAMBDA j : l[j].k = "att")
PrevFor(l, i)  == LatestBefore(l, i, LAMBDA j : IsFor(l[j], l[i].ref))                      \* prior entry for the ref (any kind, skipped or not)
PrevUnskipped(l, i) == LatestBefore(l, i, LAMBDA j : IsFor(l[j], l[i].ref) /\ ~Skipped(l, j))

\* commit ancestry: target of entry a descends from (or is) target of entry b
RECURSIVE Descends(_, _, _)
Descends(l, a, b) == IF a = b THEN TRUE ELSE IF a = 0 \/ l[a].par = 0 THEN FALSE ELSE Descends(l, l[a].par, b)

(***************************************************************************)
(* Layer D                                                                 *)
(***************************************************************************)
\* Approvals whose signed statement names exactly this change, in the attestation state recorded before the
\* entry.  The statement is a necessary condition ("counts only if"): with up = TRUE every such approval is
\* taken wherever it is stored (upper bound of what may count); with up = FALSE only those also stored at
\* the change's own path (what an honest approver produces; lower bound of what must count).
Names(x, l, i) == x.sref = l[i].ref /\ x.sfrom = PrevFor(l, i) /\ x.stree = l[i].tree
AtOwnPath(x)   == x.sref = x.ref /\ x.sfrom = x.from /\ x.stree = x.tree
AppTrusted(p, a) == a \in DOMAIN p.apps /\ p.apps[a].trusted
Approvers(l, i, up) ==
    LET a == AttPosAt(l, i) pp == PolPosAt(l, i) IN
    IF a = 0 THEN {}
    ELSE UNION {x.by : x \in {y \in l[a].apps : Names(y, l, i) /\ (up \/ AtOwnPath(y))}}
         \cup (IF pp = 0 THEN {}
                ELSE UNION {x.approvers \ x.dismissed : x \in {y \in l[a].crs : /\ Names(y, l, i) /\ (up \/ AtOwnPath(y))
                                                                               /\ AppTrusted(Pol[l[pp].v], y.app)
                                                                               /\ y.signer = Pol[l[pp].v].apps[y.app].key}})
\* an approval found at the change's path whose statement names something else, or a code-review approval there
\* that the app's key did not sign, makes the code refuse the entry (fail closed): the lower bound respects that
Poisoned(l, i) ==
    LET a == AttPosAt(l, i) pp == PolPosAt(l, i)
        AtPath(y) == y.ref = l[i].ref /\ y.from = PrevFor(l, i) /\ y.tree = l[i].tree IN
    a # 0 /\ (\/ \E y \in l[a].apps : AtPath(y) /\ ~AtOwnPath(y)
              \/ pp # 0 /\ \E y \in l[a].crs : AtPath(y) /\ AppTrusted(Pol[l[pp].v], y.app)
                                              /\ (~AtOwnPath(y) \/ y.signer # Pol[l[pp].v].apps[y.app].key))
SignersOf(l, i, up) == ({l[i].s} \cup Approvers(l, i, up)) \ {"kU", "none"}

DelegOK(p, r, S) == p.rules[r] = <<>> \/ \E n \in DOMAIN p.rules[r] : Cardinality(S \cap p.rules[r][n].pr) >= p.rules[r][n].thr
GlobalOK(l, i, p, S) ==
    /\ \A gr \in p.gthr : l[i].ref \in gr.refs => Cardinality(S \cap p.all) >= gr.thr
    /\ l[i].ref \in p.bfp => LET q == PrevUnskipped(l, i) IN q = 0 \/ Descends(l, i, q)

Authorized(l, i, up) ==
    LET pp == PolPosAt(l, i) IN
    /\ pp # 0
    /\ (up \/ ~Poisoned(l, i))
    /\ LET p == Pol[l[pp].v] S == SignersOf(l, i, up) IN DelegOK(p, l[i].ref, S) /\ GlobalOK(l, i, p, S)

\* C07: the violation at i is revoked and repaired
LastGood(l, i) == LatestBefore(l, i, LAMBDA j : l[j].k = "ref" /\ l[j].ref = l[i].ref /\ ~Skipped(l, j))
FixOf(l, i) ==     \* first later unskipped reference entry for the ref that restores the last good tree (0 = none)
    LET g == LastGood(l, i)
        S == IF g = 0 THEN {} ELSE {j \in (i + 1)..Len(l) : l[j].k = "ref" /\ l[j].ref = l[i].ref /\ ~Skipped(l, j) /\ l[j].tree = l[g].tree}
    IN IF S = {} THEN 0 ELSE Min(S)
Tolerated(l, i) ==
    /\ l[i].k = "ref" /\ Skipped(l, i)
    /\ FixOf(l, i) # 0
    /\ \A m \in (i + 1)..(FixOf(l, i) - 1) : (l[m].k = "ref" /\ l[m].ref = l[i].ref) => Skipped(l, m)

\* the documented verdict for ref r looking at entries from position `from` on
RECURSIVE DOk(_, _, _, _, _)
DOk(l, r, from, fixMustBeAuthorized, up) ==
    LET V == {i \in from..Len(l) : IsFor(l[i], r) /\ ~Authorized(l, i, up)} IN
    IF V = {} THEN TRUE
    ELSE LET i == Min(V) IN
         /\ Tolerated(l, i)
         /\ (fixMustBeAuthorized => Authorized(l, FixOf(l, i), up))
         \* propagation entries recorded between the violation and its fix are not part of the repair: each must be authorised
         /\ \A m \in (i + 1)..(FixOf(l, i) - 1) : (l[m].k = "prop" /\ l[m].ref = r) => Authorized(l, m, up)
         /\ DOk(l, r, FixOf(l, i) + 1, fixMustBeAuthorized, up)

\* C02: every policy entry a verification up to position `upto` depends on is chain- and self-valid
PolPositions(l, upto) == {k \in 1..upto : l[k].k = "pol"}
FirstPol(l) == Min({k \in 1..Len(l) : l[k].k = "pol"})
PoliciesOK(l, upto) == \A k \in PolPositions(l, upto) : (k = FirstPol(l) \/ l[k].cv) /\ l[k].sv

HasEntries(l, r) == \E i \in 1..Len(l) : IsFor(l[i], r)
LatestFor(l, r)  == Max({i \in 1..Len(l) : IsFor(l[i], r)})
\* C01 (every unrevoked entry authorised; repaired violations need an authorised fix) and C07 (fix need not be)
\* (`up`: upper / lower bound, see Approvers; they coincide when every approval is stored at its own path)
DVerdictC01(l, r, up) == IF ~HasEntries(l, r) THEN "none" ELSE IF PoliciesOK(l, LatestFor(l, r)) /\ DOk(l, r, 1, TRUE, up) THEN "ok" ELSE "fail"
DVerdictC07(l, r, up) == IF ~HasEntries(l, r) THEN "none" ELSE IF PoliciesOK(l, LatestFor(l, r)) /\ DOk(l, r, 1, FALSE, up) THEN "ok" ELSE "fail"
\* latest-only and from-entry modes
DVerdictLatest(l, r, up) == IF ~HasEntries(l, r) THEN "none"
                            ELSE IF PoliciesOK(l, LatestFor(l, r)) /\ Authorized(l, LatestFor(l, r), up) THEN "ok" ELSE "fail"
DVerdictFrom(l, r, i, up) == IF PoliciesOK(l, LatestFor(l, r)) /\ DOk(l, r, i, TRUE, up) THEN "ok" ELSE "fail"
\* an observed or modelled verdict v lies between the bounds
Between(v, lo, hi) == (v = "ok" => hi = "ok") /\ (lo = "ok" => v = "ok") /\ (v = "none" <=> hi = "none")

(***************************************************************************)
(* Layer I                                                                 *)
(***************************************************************************)
\* verifyGitObjectAndAttestations for entry i under policy p
VerifyEntryI(l, i, p, attPos, Dev) ==
    LET r == l[i].ref
        AtPath(y) == y.ref = r /\ y.from = PrevFor(l, i) /\ y.tree = l[i].tree
        StmtOK(y) == y.sref = y.ref /\ y.sfrom = y.from /\ y.stree = y.tree
        auths == IF attPos = 0 THEN {} ELSE {y \in l[attPos].apps : AtPath(y)}
        crs   == IF attPos = 0 THEN {} ELSE {y \in l[attPos].crs : AtPath(y) /\ AppTrusted(p, y.app)}
        S == ({l[i].s} \cup UNION {x.by : x \in auths} \cup UNION {x.approvers : x \in crs}) \ {"kU", "none"}
        hasGlobal == p.gthr # {} \/ p.bfp # {}
        deleg == p.rules[r]
    IN IF \E y \in auths : ~StmtOK(y) THEN FALSE                                   \* authorization found by path is validated: fail closed
       ELSE IF \E y \in crs : y.signer # p.apps[y.app].key THEN FALSE              \* approval not signed by the app's key
       ELSE IF "CodeReviewApprovalNotRevalidated" \notin Dev /\ \E y \in crs : ~StmtOK(y) THEN FALSE
       ELSE IF ~hasGlobal /\ deleg = <<>> THEN TRUE                                 \* no verifiers: unprotected
       ELSE /\ (IF hasGlobal /\ "ExhaustiveVerifierShortCircuit" \in Dev THEN TRUE    \* the exhaustive verifier always succeeds first
                ELSE DelegOK(p, r, S))
            /\ GlobalOK(l, i, p, S)

\* the queue: positions first..last that are for r, or policy / attestations entries
QueueOf(l, r, first, last) == SelectSeq([x \in 1..(last - first + 1) |-> first + x - 1],
                                        LAMBDA j : IsFor(l[j], r) \/ l[j].k \in {"pol", "att"})

RECURSIVE Walk(_, _, _, _, _, _)
RECURSIVE Recover(_, _, _, _, _, _, _, _, _)
\* q: remaining queue (positions); cp: position of the current policy entry (0 = none); ca: current attestations entry
Walk(l, r, q, cp, ca, Dev) ==
    IF q = <<>> THEN "ok"
    ELSE LET i == Head(q) rest == Tail(q) IN
    CASE l[i].k = "pol" ->
           \* VerifyNewState against the current policy (none: the first policy is trusted on first use)
           IF cp # 0 /\ ~l[i].cv THEN "policyinvalid"
           ELSE IF "InRangePolicyNotSelfVerified" \notin Dev /\ ~l[i].sv THEN "policyinvalid"
           ELSE Walk(l, r, rest, i, ca, Dev)
      [] l[i].k = "att" -> Walk(l, r, rest, cp, i, Dev)
      [] l[i].k = "prop" -> IF "PropagationEntryNotVerified" \in Dev THEN Walk(l, r, rest, cp, ca, Dev)
                            ELSE IF cp = 0 THEN "nopolicy"
                            ELSE IF VerifyEntryI(l, i, Pol[l[cp].v], ca, Dev) THEN Walk(l, r, rest, cp, ca, Dev) ELSE "vf"
      [] OTHER ->
           IF cp = 0 THEN "nopolicy"
           ELSE IF VerifyEntryI(l, i, Pol[l[cp].v], ca, Dev) THEN Walk(l, r, rest, cp, ca, Dev)
           ELSE IF ~Skipped(l, i) THEN "vf"
           ELSE IF rest = <<>> THEN "vf"
           ELSE LET g == LastGood(l, i) IN
                IF g = 0 THEN "notfound"
                ELSE Recover(l, r, rest, l[g].tree, <<>>, FALSE, cp, ca, Dev)

\* search the remaining queue for the fix; nq collects entries to re-queue
Recover(l, r, q, goodTree, nq, badInter, cp, ca, Dev) ==
    IF q = <<>> THEN "vf"
    ELSE LET j == Head(q) rest == Tail(q) IN
    IF ~IsFor(l[j], r) THEN Recover(l, r, rest, goodTree, Append(nq, j), badInter, cp, ca, Dev)
    ELSE IF l[j].k = "prop" THEN Recover(l, r, rest, goodTree, Append(nq, j), badInter, cp, ca, Dev)
    ELSE IF l[j].tree = goodTree /\ ~Skipped(l, j) THEN
            IF badInter THEN "notskipped"
            ELSE IF "FixEntryNotVerified" \in Dev THEN Walk(l, r, nq \o rest, cp, ca, Dev)
            ELSE \* the fix is verified under the policy in force at its own position
                 LET cp2 == PolPosAt(l, j) ca2 == AttPosAt(l, j) IN
                 IF cp2 # 0 /\ VerifyEntryI(l, j, Pol[l[cp2].v], ca2, Dev) THEN Walk(l, r, nq \o rest, cp, ca, Dev) ELSE "vf"
    ELSE Recover(l, r, rest, goodTree, nq, badInter \/ ~Skipped(l, j), cp, ca, Dev)

FirstFor(l, r) == Min({i \in 1..Len(l) : IsFor(l[i], r)})

\* LoadState(p): chain every policy entry from the first one to p, self-verify (as coded) only p
LoadStateOK(l, p, Dev) ==
    LET first == FirstPol(l) IN
    /\ \A k \in PolPositions(l, p) : k = first \/ l[k].cv
    /\ l[p].sv
    /\ ("InRangePolicyNotSelfVerified" \in Dev \/ \A k \in PolPositions(l, p) : l[k].sv)

\* VerifyRelativeForRef(first, last)
ImplRange(l, r, first, last, Dev) ==
    LET cp == IF l[first].k = "pol" THEN first ELSE PolPosAt(l, first)
        ca == AttPosAt(l, first) IN
    \* a missing initial policy is tolerated; verification fails only when an entry has to be verified without one
    IF cp # 0 /\ ~LoadStateOK(l, cp, Dev) THEN "policyinvalid"
    ELSE Walk(l, r, QueueOf(l, r, first, last), cp, ca, Dev)

\* VerifyRefFull / VerifyRef (latest only) / VerifyRefFromEntry
Impl(l, r, Dev) == IF ~HasEntries(l, r) THEN "none" ELSE ImplRange(l, r, FirstFor(l, r), LatestFor(l, r), Dev)
ImplLatest(l, r, Dev) == IF ~HasEntries(l, r) THEN "none" ELSE ImplRange(l, r, LatestFor(l, r), LatestFor(l, r), Dev)
ImplFrom(l, r, i, Dev) == ImplRange(l, r, i, LatestFor(l, r), Dev)

OkOrFail(v) == IF v \in {"ok", "none"} THEN v ELSE "fail"

(***************************************************************************)
(* C19: mergeability prediction (verifyMergeable) for bringing a feature   *)
(* state with tree `tree` into reference r, and the merge once recorded.   *)
(***************************************************************************)
LatestUnskippedFor(l, r) == LET S == {j \in 1..Len(l) : IsFor(l[j], r) /\ ~Skipped(l, j)} IN IF S = {} THEN 0 ELSE Max(S)
LatestPol(l) == LET S == {j \in 1..Len(l) : l[j].k = "pol"} IN IF S = {} THEN 0 ELSE Max(S)
LatestAtt(l) == LET S == {j \in 1..Len(l) : l[j].k = "att"} IN IF S = {} THEN 0 ELSE Max(S)

\* first verifier (in order) that accepts outright or with the recorder's signature still needed
\* Deviation "MergeableThresholdOneNotPossible": the "one signature short" case is only considered for thresholds
\* above 1, so a threshold-1 rule without approvals is answered "not possible" although an authorised recorder verifies.
RECURSIVE FirstAccepting(_, _, _, _)
FirstAccepting(vs, S, n, Dev) ==       \* returns [how, pr] with how \in {"nosig", "sig", "no"}
    IF n > Len(vs) THEN [how |-> "no", pr |-> {}]
    ELSE LET got == S \cap vs[n].pr IN
         IF Cardinality(got) >= vs[n].thr THEN [how |-> "nosig", pr |-> got]
         ELSE IF (vs[n].thr > 1 \/ "MergeableThresholdOneNotPossible" \notin Dev) /\ Cardinality(got) >= vs[n].thr - 1
              THEN [how |-> "sig", pr |-> got]
         ELSE FirstAccepting(vs, S, n + 1, Dev)

\* the merge recorded by `s` as a fast-forward: a reference entry for r with the predicted tree on top of the prior state
MergeEntry(l, r, tree, s) == [k |-> "ref", ref |-> r, s |-> s, tree |-> tree, par |-> LatestUnskippedFor(l, r)]
MergeVerifies(l, r, tree, s, Dev) == ImplLatest(Append(l, MergeEntry(l, r, tree, s)), r, Dev) = "ok"
Recorders == {"p1", "p2", "p3", "kU", "none"}

\* the answer that is right by construction: what verification will say for every possible recorder
MergeIdeal(l, r, tree) ==
    IF \A s \in Recorders : MergeVerifies(l, r, tree, s, {}) THEN "nosig"
    ELSE IF \E s \in Recorders : MergeVerifies(l, r, tree, s, {}) THEN "sig" ELSE "no"

\* as coded: "nosig" | "sig" | "no".  Deviation "MergeableGlobalRuleNoRecorderCredit": when the root declares global
\* rules the all-principals verifier answers first ("no signature needed"), so the recorder's own signature is never
\* credited towards a global threshold and the delegation rule of the branch is not consulted for the prediction.
MergePredictI(l, r, tree, Dev) ==
    LET pp == LatestPol(l) a == LatestAtt(l) from == LatestUnskippedFor(l, r) IN
    IF pp = 0 THEN "no"
    ELSE LET p == Pol[l[pp].v]
             AtPath(y) == y.ref = r /\ y.from = from /\ y.tree = tree
             StmtOK(y) == y.sref = y.ref /\ y.sfrom = y.from /\ y.stree = y.tree
             auths == IF a = 0 THEN {} ELSE {y \in l[a].apps : AtPath(y)}
             crs   == IF a = 0 THEN {} ELSE {y \in l[a].crs : AtPath(y) /\ AppTrusted(p, y.app)}
             S == (UNION {x.by : x \in auths} \cup UNION {x.approvers : x \in crs}) \ {"kU", "none"}
             hasGlobal == p.gthr # {} \/ p.bfp # {}
             deleg == p.rules[r]
         IN IF \E y \in auths : ~StmtOK(y) THEN "no"
            ELSE IF \E y \in crs : y.signer # p.apps[y.app].key \/ ~StmtOK(y) THEN "no"
            ELSE IF ~hasGlobal /\ deleg = <<>> THEN "nosig"                      \* unprotected
            ELSE IF hasGlobal /\ "MergeableGlobalRuleNoRecorderCredit" \notin Dev THEN MergeIdeal(l, r, tree)
            ELSE LET acc == IF hasGlobal THEN [how |-> "nosig", pr |-> S \cap p.all]   \* the exhaustive verifier accepts first
                            ELSE FirstAccepting(deleg, S, 1, Dev) IN
                 IF acc.how = "no" THEN "no"
                 ELSE IF \E gr \in p.gthr : r \in gr.refs /\ Cardinality(acc.pr) < gr.thr - (IF acc.how = "sig" THEN 1 ELSE 0) THEN "no"
                 ELSE acc.how

\* Layer D: what the answer must mean once the merge is recorded
\* approvers bound to the predicted change, and the principals some rule authorises for r, under the latest policy
MergeApprovers(l, r, tree) == Approvers(Append(l, MergeEntry(l, r, tree, "none")), Len(l) + 1, TRUE)
AuthPrincipals(l, r) == LET pp == LatestPol(l) IN
                        IF pp = 0 THEN {} ELSE UNION {Pol[l[pp].v].rules[r][n].pr : n \in DOMAIN Pol[l[pp].v].rules[r]}
MergeAgrees(l, r, tree, answer, verifies(_)) ==
    CASE answer = "nosig" -> \A s \in Recorders : verifies(s)
      [] answer = "no"    -> \A s \in Recorders : ~verifies(s)
      [] answer = "sig"   -> LET pp == LatestPol(l) IN
                             IF pp # 0 /\ (Pol[l[pp].v].gthr # {} \/ Pol[l[pp].v].bfp # {})
                             THEN (\E s \in Recorders : verifies(s)) /\ ~(\A s \in Recorders : verifies(s))    \* (with global rules: some, not all)
                             ELSE \A s \in Recorders : verifies(s) <=> (s \in AuthPrincipals(l, r) /\ s \notin MergeApprovers(l, r, tree))
=============================================================================
