SPECIFICATION Spec
CONSTANTS
  NP = 2
  KeyPool = {"k1", "k2", "k3"}
  MaxThr = 3
  EmitMod = 1
  EmitRes = 0
INVARIANT Refines
CONSTRAINT Emit
CHECK_DEADLOCK FALSE
