-------------------------------- MODULE Trees --------------------------------
(***************************************************************************)
(* File rules over commit graphs and trees with odd path names -- C10.     *)
(*                                                                         *)
(* Path ATOMS are abstract; the harness maps each atom to a concrete name  *)
(* of a CLASS: "plain", "space" (contains a space), "quoted" (contains a   *)
(* tab, double quote, backslash, control byte or non-ASCII byte: what git  *)
(* C-quotes in its line-oriented output), "glob" (glob metacharacters).    *)
(* A tree is a function atom -> blob (0 = absent).  A scenario is          *)
(*   commits : Seq([par : Seq(index), tree, s])    (par = earlier commits) *)
(*   old, new : indexes -- the reference moves from commit old (0 = none)  *)
(*              to commit new                                              *)
(*   prot : set of atoms the file rule protects (its pattern's extent)     *)
(*   star : the rule's pattern is the catch-all                            *)
(*   cls  : atom -> class                                                  *)
(* The rule trusts "p1" with threshold 1.                                  *)
(*                                                                         *)
(* Deviations:                                                             *)
(*  "QuotedPathsReachMatcher"    changed paths are taken from git's        *)
(*       line-oriented diff output, in which names of class "quoted" are   *)
(*       C-quoted; the rule matcher sees the quoted spelling               *)
(*  "SpaceTruncatesTreeListing"  tree listings are split on spaces, so a   *)
(*       name of class "space" is cut at its first space (and quoted names *)
(*       come back quoted) when trees are read back                        *)
(*  "TreeWriterUnquotesNames"    trees are written through the line-       *)
(*       oriented mktree, which C-unquotes (or refuses) a name that begins *)
(*       with a double quote                                               *)
(***************************************************************************)
EXTENDS Integers, Sequences, FiniteSets, SequencesExt, FiniteSetsExt, TLC

Atoms == {"a", "b", "dx"}
Present(t) == {p \in Atoms : t[p] # 0}
Diff(t1, t2) == {p \in Atoms : t1[p] # t2[p]}

RECURSIVE Ancestors(_, _)
Ancestors(cs, i) == IF i = 0 THEN {} ELSE {i} \cup UNION {Ancestors(cs, cs[i].par[x]) : x \in DOMAIN cs[i].par}

\* paths a commit changes (the merge rule is the code's: nothing if tree-same to the last parent)
Changed(cs, i) ==
    LET c == cs[i] IN
    IF c.par = <<>> THEN Present(c.tree)
    ELSE IF Len(c.par) = 1 THEN Diff(cs[c.par[1]].tree, c.tree)
    ELSE IF Diff(cs[c.par[Len(c.par)]].tree, c.tree) = {} THEN {}
    ELSE UNION {Diff(cs[c.par[x]].tree, c.tree) : x \in DOMAIN c.par}

NewCommits(sc) == Ancestors(sc.commits, sc.new) \ Ancestors(sc.commits, sc.old)

\* Layer D: every changed protected path is changed by a commit an authorised principal signed
FileRuleOK(sc) == \A i \in NewCommits(sc) : \A p \in Changed(sc.commits, i) : p \in sc.prot => sc.commits[i].s = "p1"

\* Layer I: the matcher's view of which changed paths are protected
SeenProtected(sc, p, Dev) ==
    IF "QuotedPathsReachMatcher" \in Dev /\ sc.cls[p] = "quoted" THEN sc.star      \* a quoted spelling matches only the catch-all
    ELSE p \in sc.prot
FileRuleI(sc, Dev) == \A i \in NewCommits(sc) : \A p \in Changed(sc.commits, i) : SeenProtected(sc, p, Dev) => sc.commits[i].s = "p1"

(***************************************************************************)
(* Reading paths back.  A view is [seen, junk]: the atoms whose verbatim   *)
(* name came back, and the number of other strings returned.               *)
(***************************************************************************)
AlteredByDiff(sc, S, Dev) == {p \in S : "QuotedPathsReachMatcher" \in Dev /\ sc.cls[p] = "quoted"}
AlteredByList(sc, S, Dev) == {p \in S : "SpaceTruncatesTreeListing" \in Dev /\ sc.cls[p] \in {"space", "quoted"}}
\* the view of the set S of atoms when the atoms in `alt` come back altered
ViewOK(S, alt, seen, njunk) == seen = S \ alt /\ (alt = {} <=> njunk = 0) /\ njunk <= Cardinality(alt)
RewriteI(sc, tree, Dev) == IF "TreeWriterUnquotesNames" \in Dev /\ \E p \in Present(tree) : sc.lead[p] THEN {"differs", "error"} ELSE {"same"}
LookupI(sc, tree, Dev) == IF AlteredByList(sc, Present(tree), Dev) # {} THEN {"wrong"} ELSE {"ok"}
=============================================================================
