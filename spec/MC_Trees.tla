------------------------------ MODULE MC_Trees ------------------------------
(***************************************************************************)
(* All commit graphs of the listed shapes over small trees, every          *)
(* assignment of signers to the new commits and every rule extent.         *)
(* Checked: the as-designed matcher refines the declarative rule           *)
(* (Refines); a net change of a protected path between the old and the new *)
(* tip is always vouched for by an authorised signer, provided no new      *)
(* merge is tree-same to its last parent (EndToEnd) -- ExemptionMatters    *)
(* (expected to FAIL) shows the proviso is needed: the documented          *)
(* "a merge that equals a parent changes nothing" rule lets such a merge   *)
(* revert a protected path.                                                *)
(***************************************************************************)
EXTENDS Trees, Json

CONSTANTS Shapes, Dev, EmitMod, EmitRes
VARIABLE sc

TreeSet == {[a |-> x, b |-> y, dx |-> z] : x \in 0..2, y \in 0..1, z \in 0..2}
TreeSetM == {[a |-> x, b |-> 1, dx |-> z] : x \in 0..2, z \in 0..1}      \* the merge shapes have three free trees
T1 == [a |-> 1, b |-> 1, dx |-> 1]
Signers == {"p1", "p2"}

\* shape -> parent lists, (old, new), which commits take a free tree
ShapeDef ==
    [root    |-> [par |-> << <<>> >>,                           old |-> 0, new |-> 1, free |-> {1},       newc |-> {1}],
     linear  |-> [par |-> << <<>>, <<1>> >>,                    old |-> 1, new |-> 2, free |-> {1, 2},    newc |-> {2}],
     two     |-> [par |-> << <<>>, <<1>>, <<2>> >>,             old |-> 1, new |-> 3, free |-> {2, 3},    newc |-> {2, 3}],
     merge   |-> [par |-> << <<>>, <<1>>, <<1>>, <<2, 3>> >>,   old |-> 2, new |-> 4, free |-> {2, 3, 4}, newc |-> {3, 4}],
     mergeall|-> [par |-> << <<>>, <<1>>, <<1>>, <<2, 3>> >>,   old |-> 1, new |-> 4, free |-> {2, 3, 4}, newc |-> {2, 3, 4}],
     back    |-> [par |-> << <<>>, <<1>>, <<2, 1>> >>,          old |-> 2, new |-> 3, free |-> {2, 3},    newc |-> {3}],
     unrel   |-> [par |-> << <<>>, <<>>, <<1, 2>> >>,           old |-> 1, new |-> 3, free |-> {2, 3},    newc |-> {2, 3}]]

Scenarios(sh) ==
    LET d == ShapeDef[sh] n == Len(d.par) IN
    {[shape |-> sh,
      commits |-> [i \in 1..n |-> [par |-> d.par[i], tree |-> IF i \in d.free THEN ts[i] ELSE T1, s |-> IF i \in d.newc THEN ss[i] ELSE "p1"]],
      old |-> d.old, new |-> d.new, prot |-> pr.prot, star |-> pr.star, pat |-> pr.pat] :
        ts \in [d.free -> IF sh \in {"merge", "mergeall"} THEN TreeSetM ELSE TreeSet], ss \in [d.newc -> Signers],
        pr \in {[pat |-> "a", prot |-> {"a"}, star |-> FALSE], [pat |-> "b", prot |-> {"b"}, star |-> FALSE],
                [pat |-> "d/*", prot |-> {"dx"}, star |-> FALSE], [pat |-> "*", prot |-> Atoms, star |-> TRUE]}}

Canon(s) ==   \* root trees are not empty; the shape table's newc is what the graph says
    /\ \A i \in 1..Len(s.commits) : (s.commits[i].par = <<>> => Present(s.commits[i].tree) # {})
    /\ NewCommits(s) = ShapeDef[s.shape].newc

Init == sc \in {s \in UNION {Scenarios(sh) : sh \in Shapes} : Canon(s)}
Next == UNCHANGED sc
Spec == Init /\ [][Next]_sc

WithCls(s) == s @@ [cls |-> [p \in Atoms |-> "plain"], lead |-> [p \in Atoms |-> FALSE]]

Refines == FileRuleI(WithCls(sc), Dev) = FileRuleOK(sc)

ExemptMerge(s) == \E i \in NewCommits(s) : LET c == s.commits[i] IN
                     Len(c.par) > 1 /\ Diff(s.commits[c.par[Len(c.par)]].tree, c.tree) = {}
NetChanged(s) == IF s.old = 0 THEN Present(s.commits[s.new].tree) ELSE Diff(s.commits[s.old].tree, s.commits[s.new].tree)
Vouched(s, p) == \E i \in NewCommits(s) : p \in Changed(s.commits, i) /\ s.commits[i].s = "p1"
EndToEnd == (FileRuleOK(sc) /\ ~ExemptMerge(sc)) => \A p \in NetChanged(sc) \cap sc.prot : Vouched(sc, p)
ExemptionMatters == ~(FileRuleOK(sc) /\ NetChanged(sc) \cap sc.prot # {} /\ \A i \in NewCommits(sc) : sc.commits[i].s = "p2")

\* the deviations change verdicts for some class assignment (teeth of the classification)
QuotedCls == [p \in Atoms |-> "quoted"]
DevHasTeeth == ~(~FileRuleOK(sc) /\ FileRuleI(sc @@ [cls |-> QuotedCls], {"QuotedPathsReachMatcher"}))

\* sampled emission: a cheap structural hash selects 1 / EmitMod of the scenarios
Weight(s) == LET n == Len(s.commits) IN
    SumSet({i * (s.commits[i].tree["a"] + 3 * s.commits[i].tree["b"] + 7 * s.commits[i].tree["dx"]
                 + (IF s.commits[i].s = "p1" THEN 0 ELSE 11)) : i \in 1..n}) + Cardinality(s.prot) + (IF s.star THEN 5 ELSE 0)
Emit == IF Weight(sc) % EmitMod = EmitRes
        THEN PrintT(ToJson([t |-> "SCN", sc |-> sc, dok |-> FileRuleOK(sc), exempt |-> ExemptMerge(sc),
                            changed |-> [i \in 1..Len(sc.commits) |-> Changed(sc.commits, i)],
                            newc |-> NewCommits(sc)]))
        ELSE TRUE
=============================================================================
