SPECIFICATION Spec
CONSTANTS
  MaxLen = 6
  Dev = {}
  EmitMod = 7
  EmitRes = 1
INVARIANT Published
INVARIANT ApplySafe
INVARIANT Guard
VIEW View
CONSTRAINT Emit
CHECK_DEADLOCK FALSE
