--------------------------- MODULE Trace_Reconcile ---------------------------
(***************************************************************************)
(* Trace validation for C15 (reconcile).  Each line is a pair of logs of   *)
(* MC_Reconcile built in two real repositories (the local one with the     *)
(* remote configured as "origin"); ReconcileLocalRSLWithRemote ran in the  *)
(* local one and both logs were read back, as meanings, with git plumbing. *)
(***************************************************************************)
EXTENDS Reconcile, Json

CONSTANTS Known, AsBuilt
TL == ndJsonDeserialize("trace.ndjson")
VARIABLE l

LogOf(es) == [i \in DOMAIN es |-> [u |-> es[i].u, k |-> es[i].k, ref |-> es[i].ref, t |-> es[i].t, tg |-> ToSet(es[i].tg), skip |-> es[i].skip]]
ObsMeaning(ms) == [i \in DOMAIN ms |-> [k |-> ms[i].k, ref |-> ms[i].ref, t |-> ms[i].t, tg |-> ToSet(ms[i].tg), skip |-> ms[i].skip]]

Explains(x, S) ==
    LET C == LogOf(x.scn.C) L == LogOf(x.scn.L) R == LogOf(x.scn.R)
        kinds == IF "ConflictCheckIgnoresPropagation" \in S THEN {"ref"} ELSE {"ref", "prop"}
        refused == L # <<>> /\ R # <<>> /\ Updates(L, kinds) \cap Updates(R, kinds) # {}
    IN /\ ObsMeaning(x.obs.local) = Meaning(ReconcileI(C, L, R, S))
       /\ ObsMeaning(x.obs.remote) = Meaning(C \o R)           \* the remote is never written by a reconcile
       /\ (x.obs.err # "") = refused

RefMap(m) == [r \in {"main", "feat"} |-> m[r]]
ExplainsSync(x, S) ==
    LET C == LogOf(x.scn.C) L == LogOf(x.scn.L) R == LogOf(x.scn.R)
        st == [r \in {"main", "feat"} |-> x.scn.lref[r]]
        w == SyncBefore(C, L, R, st)
        res == SyncI(C, L, R, st, x.scn.op = "syncow", S)
    IN /\ RefMap(x.obs.lbefore) = w.lref /\ RefMap(x.obs.rbefore) = w.rref       \* the harness built the world the model starts from
       /\ ObsMeaning(x.obs.local) = Meaning(res.w.llog)
       /\ ObsMeaning(x.obs.remote) = Meaning(res.w.rlog)
       /\ RefMap(x.obs.lrefs) = res.w.lref /\ RefMap(x.obs.rrefs) = res.w.rref
       /\ (x.obs.err # "") = (res.err # "")
       /\ ToSet(x.obs.div) = {IF d = "rsl" THEN "refs/gittuf/reference-state-log" ELSE d : d \in res.div}

\* the property's own conditions, evaluated on what was observed before and after a synchronisation
AsLog(ms) == [i \in DOMAIN ms |-> [u |-> i, k |-> ms[i].k, ref |-> ms[i].ref, t |-> ms[i].t, tg |-> ms[i].tg, skip |-> ms[i].skip]]
GuaranteesHold(x) ==
    LET C == LogOf(x.scn.C) L == LogOf(x.scn.L) R == LogOf(x.scn.R)
        ow == x.scn.op = "syncow"
        w == [llog |-> AsLog(Meaning(C \o L)), rlog |-> AsLog(Meaning(C \o R)), lref |-> RefMap(x.obs.lbefore), rref |-> RefMap(x.obs.rbefore)]
        w2 == [llog |-> AsLog(ObsMeaning(x.obs.local)), rlog |-> AsLog(ObsMeaning(x.obs.remote)), lref |-> RefMap(x.obs.lrefs), rref |-> RefMap(x.obs.rrefs)]
    IN /\ MovesOnlyToRecorded(w, w2) /\ NoRewindUnlessTold(C, L, R, w, w2, ow) /\ RemoteOnlyExtended(w, w2)
       /\ PublishedTogether(C, L, R, w, w2) /\ (x.obs.err # "" => w2 = w)

Ex(x, S) == IF x.scn.op = "reconcile" THEN Explains(x, S) ELSE ExplainsSync(x, S)

Classify(x) ==
    IF x.err # "" THEN [cls |-> "infra", why |-> x.err]
    ELSE IF Ex(x, {}) THEN [cls |-> "conform"]
    ELSE IF x.scn.op # "reconcile" /\ GuaranteesHold(x) THEN [cls |-> "safe", why |-> "differs from the modelled algorithm but keeps every guarantee of the property"]
    ELSE LET Ss == {S \in SUBSET AsBuilt : S # {} /\ Ex(x, S)} IN
         IF Ss # {} THEN [cls |-> "known", dev |-> CHOOSE S \in Ss : \A T \in Ss : Cardinality(S) <= Cardinality(T)]
         ELSE [cls |-> "violation", why |-> IF x.scn.op = "reconcile"
                    THEN "the reconciled local log is not the remote log followed by the local-only entries with their meaning"
                    ELSE "logs / references after synchronisation are not what the model allows"]

Init == l = 1
Next == /\ l <= Len(TL)
        /\ PrintT(ToJson([t |-> "CLS", id |-> TL[l].id, r |-> Classify(TL[l])]))
        /\ l' = l + 1
Spec == Init /\ [][Next]_l
=============================================================================
