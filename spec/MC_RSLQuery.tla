--------------------------- MODULE MC_RSLQuery ---------------------------
(***************************************************************************)
(* Bounded exhaustive check that the RSL readers as coded (Layer I, ideal  *)
(* = no deviations) agree with their set-comprehension definitions (Layer  *)
(* D) and fail closed on single-point corruptions.  States are chains;     *)
(* every query is evaluated inside the invariant.  Each chain is emitted   *)
(* as a scenario for replay against pkg/rsl.                               *)
(***************************************************************************)
EXTENDS RSL, Json

CONSTANTS MaxLen,        \* chain length bound
          Dev,           \* deviations switched on in Layer I
          Tamper,        \* TRUE: also explore single-point corruptions
          EmitLen        \* emit scenarios for chains of at least this length (negative = none)

VARIABLES chain, tampered

Refs  == {"refs/heads/main", "refs/heads/feat", PolicyRef, StagingRef}
Ups   == {"u1", "u2"}

\* the number after the tip's; a non-entry commit at the tip carries no number, an entry appended on top of it is numbered
\* as if the non-entry had taken one (numbers stay unique, which is what makes number-bounded queries meaningful)
LastNum(c) == LET S == {i \in 1..Len(c) : c[i].k # "garb"} IN IF S = {} THEN 0 ELSE c[Max(S)].num
NextNum(c) == IF c = <<>> THEN 1 ELSE IF c[Len(c)].k = "garb" THEN LastNum(c) + 2 ELSE c[Len(c)].num + 1

Base(k, ref, up, tg, skip, num) ==
    [k |-> k, ref |-> ref, t |-> 1, up |-> up, tg |-> tg, skip |-> skip, num |-> num, xp |-> FALSE]

AnnTargets(c) == {<<i>> : i \in {j \in 1..Len(c) : c[j].k # "ann"}}
                 \cup ({<<i, j>> : i, j \in {x \in 1..Len(c) : c[x].k = "ref"}} \ {<<i, i>> : i \in 1..Len(c)})

\* well-formed candidates for the next entry; legacy (num = 0) only while the
\* chain is still entirely legacy
Candidates(c) ==
    LET nums == {NextNum(c)} \cup (IF \A i \in 1..Len(c) : c[i].num = 0 THEN {0} ELSE {}) IN
    UNION { {Base("ref", r, "", <<>>, FALSE, n) : r \in Refs}
            \cup {Base("prop", "refs/heads/main", u, <<>>, FALSE, n) : u \in Ups}
            \cup {Base("ann", "", "", tg, sk, n) : tg \in AnnTargets(c), sk \in BOOLEAN}
          : n \in nums }

\* single-point corruptions of a candidate
Corrupt(c, e) ==
    {[e EXCEPT !.xp = TRUE]}
    \cup {[e EXCEPT !.k = "garb", !.ref = "", !.tg = <<>>, !.num = 0]}
    \cup (IF e.num > 0 THEN {[e EXCEPT !.num = e.num + 1]} ELSE {})          \* gap
    \cup (IF e.num > 1 THEN {[e EXCEPT !.num = e.num - 1]} ELSE {})          \* duplicate
    \cup (IF e.num = 0 /\ c # <<>> THEN {} ELSE {})

Init == chain = <<>> /\ tampered = FALSE

Next ==
    /\ Len(chain) < MaxLen
    /\ \/ \E e \in Candidates(chain) : chain' = Append(chain, e) /\ tampered' = tampered
       \/ /\ Tamper /\ ~tampered /\ chain # <<>>
          /\ \E e \in Candidates(chain) : \E x \in Corrupt(chain, e) :
                chain' = Append(chain, x) /\ tampered' = TRUE

Spec == Init /\ [][Next]_<<chain, tampered>>

---------------------------------------------------------------------------
Positions(c) == 0..Len(c)
NumsOf(c)    == {0} \cup {c[i].num : i \in 1..Len(c)} \cup {Len(c) + 2}

Queries(c) ==
    [ref : {"", "refs/heads/main", PolicyRef}, bid : Positions(c) \cup {Len(c) + 1}, bnum : NumsOf(c),
     uid : Positions(c), unum : NumsOf(c), unsk : BOOLEAN, nong : BOOLEAN, isref : BOOLEAN,
     prepo : {"", "u1"}]

\* keep the per-state query loop affordable: at most one before and one until
\* option (the static both-set error is checked separately) and at most two
\* boolean flags at a time
QOK(o) == /\ ~(o.bid # 0 /\ o.bnum # 0) /\ ~(o.uid # 0 /\ o.unum # 0)
          /\ Cardinality({x \in {"unsk", "nong", "isref"} : o[x]}) <= 2

LatestOK(c) == \A o \in {q \in Queries(c) : QOK(q)} : DOKLatest(c, o, WalkLatest(c, o, Dev))
StaticOK(c) == \A o \in {q \in Queries(c) : ~QOK(q) /\ StaticBadOptions(q)} : WalkLatest(c, o, Dev).e < 0
FirstOK(c)  == \A r \in {"", "refs/heads/main", PolicyRef, "refs/heads/none"} : DOKFirst(c, r, WalkFirst(c, r))
RangeOK(c)  == \A f \in 1..Len(c) : \A l \in f..Len(c) : \A r \in {"", "refs/heads/main"} :
                  (IsUpd(c[f]) /\ IsUpd(c[l])) => DOKRange(c, f, l, r, WalkRange(c, f, l, r))
ParentOK(c) == \A i \in 2..Len(c) : (c # <<>> /\ i < Len(c) + 1 /\ c[i].k # "garb") =>
                  (i = Len(c) \/ DOKNonGittufParent(c, i, WalkNonGittufParent(c, i)))

ReadersRefineScan == LatestOK(chain) /\ FirstOK(chain) /\ RangeOK(chain)

Emit == IF EmitLen >= 0 /\ Len(chain) >= EmitLen
        THEN PrintT(ToJson([t |-> "SCN", chain |-> chain, tampered |-> tampered]))
        ELSE TRUE
=============================================================================
