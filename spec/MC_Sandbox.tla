----------------------------- MODULE MC_Sandbox -----------------------------
(***************************************************************************)
(* The construction sequence of the sandbox confines scripts; leaving out  *)
(* any single step breaks confinement (the invariant has teeth).  The      *)
(* grammar of escape / non-termination / return-value programs is emitted  *)
(* for execution in the real sandbox.                                      *)
(***************************************************************************)
EXTENDS Sandbox, Json

CONSTANTS Apis
VARIABLES skip, prog

Vias == {"direct", "pcall", "getfenv0", "getfenv1", "coroutine", "xpcall", "strmethod", "setfenv"}
Targets == ForbiddenGlobals \cup ForbiddenMembers \cup {"io.open", "os.execute", "os.getenv", "debug.getinfo", "package.loadlib"}
Programs ==
    {[cls |-> "escape", via |-> v, target |-> t, v |-> ""] : v \in Vias, t \in Targets}
    \cup {[cls |-> "write", via |-> v, target |-> l, v |-> ""] : v \in {"assign", "assign-nil", "via-strmeta", "via-getfenv"}, l \in ProtectedLibs}
    \cup {[cls |-> "loop", via |-> k, target |-> "", v |-> ""] : k \in {"while", "recursion", "pingpong", "pcall-loop", "find-blowup", "gsub-blowup", "sort-loop", "repeat-concat"}}
    \cup {[cls |-> "ret", via |-> "", target |-> "", v |-> v] : v \in {"number", "string", "nil", "table", "none", "boolean", "float", "negative"}}

Init == skip \in ({{}} \cup {{s} : s \in Steps}) /\ prog \in Programs
Next == UNCHANGED <<skip, prog>>
Spec == Init /\ [][Next]_<<skip, prog>>

ConstructionConfines == skip = {} => Confined(Build(Apis, {}), Apis)
\* (os, io and debug are never opened, so removing their globals is belt and braces)
Redundant == {"nil:os", "nil:io", "nil:debug"}
Teeth == (skip # {} /\ skip \cap Redundant = {}) => ~Confined(Build(Apis, skip), Apis)

Emit == IF skip = {} THEN PrintT(ToJson([t |-> "SCN", prog |-> prog, expected |-> Expected(prog)])) ELSE TRUE
=============================================================================
