----------------------------- MODULE MC_Reconcile -----------------------------
(***************************************************************************)
(* All pairs of logs sharing a prefix C (up to MaxC entries) with a local-  *)
(* only suffix L (up to MaxL) and a remote-only suffix R (up to MaxR) over  *)
(* reference entries, propagation entries and skip annotations (naming any  *)
(* earlier reference / propagation entry on their own side, shared or       *)
(* local-only), on two references.  The re-recording algorithm as designed  *)
(* gives exactly the declarative result (Refines), which has the three      *)
(* listed consequences.                                                     *)
(***************************************************************************)
EXTENDS Reconcile, Json

CONSTANTS MaxC, MaxL, MaxR, Dev, EmitMod, EmitRes
VARIABLES C, L, R, phase

Refs == {"main", "feat"}
N == Len(C) + Len(L) + Len(R)
\* new commits, resets of a reference to a commit recorded for it earlier, skip annotations and plain notes
EntryChoices(view) ==
    {[u |-> N + 1, k |-> k, ref |-> r, t |-> N + 1, tg |-> {}, skip |-> FALSE] : k \in {"ref", "prop"}, r \in Refs}
    \cup {[u |-> N + 1, k |-> "ref", ref |-> view[i].ref, t |-> view[i].t, tg |-> {}, skip |-> FALSE] : i \in {j \in DOMAIN view : view[j].k \in {"ref", "prop"}}}
    \cup {[u |-> N + 1, k |-> "ann", ref |-> "", t |-> 0, tg |-> {view[i].u}, skip |-> sk] : i \in {j \in DOMAIN view : view[j].k \in {"ref", "prop"}}, sk \in BOOLEAN}

Init == C = <<>> /\ L = <<>> /\ R = <<>> /\ phase = "C"
Next ==
    \/ phase = "C" /\ Len(C) < MaxC /\ \E e \in EntryChoices(C) : C' = Append(C, e) /\ UNCHANGED <<L, R, phase>>
    \/ phase = "C" /\ C # <<>> /\ phase' = "L" /\ UNCHANGED <<C, L, R>>
    \/ phase = "L" /\ Len(L) < MaxL /\ \E e \in EntryChoices(C \o L) : L' = Append(L, e) /\ UNCHANGED <<C, R, phase>>
    \/ phase = "L" /\ phase' = "R" /\ UNCHANGED <<C, L, R>>
    \/ phase = "R" /\ Len(R) < MaxR /\ \E e \in EntryChoices(C \o R) : R' = Append(R, e) /\ UNCHANGED <<C, L, phase>>
Spec == Init /\ [][Next]_<<C, L, R, phase>>

Result == Meaning(ReconcileI(C, L, R, Dev))
Refines == C # <<>> => Result = ReconcileD(C, L, R)
Consequences == C # <<>> => LET m == ReconcileD(C, L, R) IN ExtendsRemote(C, L, R, m) /\ KeepsLocalOnce(C, L, R, m) /\ StillRevoked(C, L, R, m)
\* revocation survives: an entry of the local log that was skipped is still skipped at its new position
RevocationSurvives ==
    (C # <<>> /\ ReconcileKind(C, L, R) = "replayed") =>
        LET new == ReconcileI(C, L, R, Dev) IN
        \A i \in 1..(Len(C) + Len(L)) : SkippedAt(C \o L, i) => SkippedAt(new, Shift(i, Len(C), Len(R)))

\* synchronisation: for every placement of the local branches and both settings of the overwrite flag
States == {"behind", "equal", "ahead", "diverged", "absent"}
SyncGuarantees ==
    C # <<>> => \A sm \in States, sf \in States, ow \in BOOLEAN :
        LET st == [main |-> sm, feat |-> sf]
            w == SyncBefore(C, L, R, st)
            res == SyncI(C, L, R, st, ow, Dev)
        IN /\ MovesOnlyToRecorded(w, res.w) /\ NoRewindUnlessTold(C, L, R, w, res.w, ow) /\ RemoteOnlyExtended(w, res.w)
           /\ PublishedTogether(C, L, R, w, res.w) /\ RefusalChangesNothing(w, res)

EJ(e) == [u |-> e.u, k |-> e.k, ref |-> e.ref, t |-> e.t, tg |-> SetToSeq(e.tg), skip |-> e.skip]
LJ(s) == [i \in DOMAIN s |-> EJ(s[i])]
Code(e) == (IF e.k = "ref" THEN 1 ELSE IF e.k = "prop" THEN 2 ELSE 3) + (IF e.skip THEN 16 ELSE 0) + (IF e.t # e.u THEN 32 ELSE 0) + (IF e.ref = "feat" THEN 4 ELSE 0) + 8 * Cardinality(e.tg) + SumSet(e.tg)
SeqCode(s, m) == SumSet({(i + m) * (i + m) * Code(s[i]) + i : i \in DOMAIN s})
Weight == SeqCode(C, 1) + SeqCode(L, 3) + SeqCode(R, 6)
Interesting == L # <<>> /\ R # <<>>
\* shapes that are always worth a replay: a reference reset to an earlier commit on one side while the other side revokes a
\* shared entry of it; an entry of a suffix carrying both a revocation and a later plain note
ResetVsRevoke == \E i \in DOMAIN L : L[i].k = "ref" /\ L[i].t # L[i].u /\ \E j \in DOMAIN R : R[j].k = "ann" /\ R[j].skip
                                                        /\ \E c \in DOMAIN C : C[c].u \in R[j].tg /\ C[c].ref = L[i].ref
NoteAfterSkip(S) == \E i, j \in DOMAIN S : i < j /\ S[i].k = "ann" /\ S[j].k = "ann" /\ S[i].skip /\ ~S[j].skip /\ S[i].tg = S[j].tg
                                            /\ \E x \in DOMAIN S : S[x].u \in S[i].tg
Special == ResetVsRevoke \/ NoteAfterSkip(L) \/ NoteAfterSkip(R)
Emit == IF phase = "R" /\ C # <<>> /\ ((Special /\ Weight % 3 = EmitRes % 3) \/ (IF Interesting THEN Weight % EmitMod = EmitRes ELSE Weight % (EmitMod * 8) = EmitRes))
        THEN PrintT(ToJson([t |-> "SCN", C |-> LJ(C), L |-> LJ(L), R |-> LJ(R), kind |-> ReconcileKind(C, L, R), special |-> Special]))
        ELSE TRUE
=============================================================================
