SPECIFICATION Spec
CONSTANTS
  MaxLen = 4
  Family = "core"
  EmitMod = 211
  EmitRes = 1
  AsBuilt = {"PropagationEntryNotVerified", "ExhaustiveVerifierShortCircuit", "FixEntryNotVerified"}
  Pol <- MCPol
INVARIANT C01Refines
INVARIANT C07Refines
CONSTRAINT Emit
CHECK_DEADLOCK FALSE
