SPECIFICATION Spec
CONSTANTS
  MaxLen = 4
  Dev = {}
  Which = "file"
  EmitMod = 5
  EmitRes = 1
INVARIANT WF
INVARIANT RefusedUnchanged
VIEW View
CONSTRAINT Emit
CHECK_DEADLOCK FALSE
