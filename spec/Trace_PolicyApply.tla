-------------------------- MODULE Trace_PolicyApply --------------------------
(***************************************************************************)
(* Trace validation for C12: a line is one sequence of repository API      *)
(* operations (root edits by various signers, sign, apply, discard, direct *)
(* tampering with the policy / staging refs) run on a real Git repository  *)
(* through experimental/gittuf, with what was observed after every step.   *)
(***************************************************************************)
EXTENDS PolicyApply, Json

CONSTANTS Known, AsBuilt
TL == ndJsonDeserialize("trace.ndjson")
VARIABLE l

Op(o) == CASE o.op \in {"AddRootKey", "RemoveRootKey"} -> [op |-> o.op, s |-> o.s, k |-> o.k]
           [] o.op = "UpdateRootThreshold" -> [op |-> o.op, s |-> o.s, thr |-> o.thr]
           [] o.op \in {"Init", "SignRoot"} -> [op |-> o.op, s |-> o.s]
           [] OTHER -> [op |-> o.op]
Ops(line) == [i \in DOMAIN line.scn.ops |-> Op(line.scn.ops[i])]

\* Layer D over the observed steps; run = the ideal model's run, used only for the state BEFORE each step
\* (which root principals may edit, whether refs were tampered with)
DStepOK(op, before, obs) ==
    /\ (obs.policyMoved /\ op.op # "TamperPolicy") =>
          (op.op = "Apply" /\ obs.ok /\ obs.descends /\ obs.logged /\ obs.eqStaging)   \* only Apply moves the policy: to the staged, logged descendant
    /\ (op.op = "Apply" /\ obs.ok) => (before.ssync /\ before.psync /\ obs.loads)       \* refuses when out of sync; what it publishes verifies afterwards
    /\ (op.op \in {"AddRootKey", "RemoveRootKey", "UpdateRootThreshold"} /\ obs.ok) => op.s \in before.staged.pr
    /\ (op.op = "Discard" /\ obs.ok /\ obs.hasPolicy) => obs.eqStaging
\* (a repository already broken by an earlier, reported, step is not judged further)
DStep(op, before, obs) == ~before.chain \/ DStepOK(op, before, obs)

RECURSIVE DAll(_, _, _)
DAll(st, ops, steps) ==
    ops = <<>> \/ (DStep(Head(ops), st, Head(steps)) /\ DAll(Step(st, Head(ops), AsBuilt).st, Tail(ops), Tail(steps)))

Explains(line, d) ==
    LET run == Run(Init0, Ops(line), d) IN
    \* (once an unchained root has been published the repository is broken; later steps are not compared)
    \A i \in DOMAIN run : (i = 1 \/ run[i - 1].st.chain) =>
                          /\ run[i].ok = line.steps[i].ok
                          /\ (line.scn.ops[i].op = "Apply" /\ run[i].ok => line.steps[i].loads = Verifiable(run[i].st))

Classify(line) ==
    IF DAll(Init0, Ops(line), line.steps)
    THEN IF Explains(line, AsBuilt) \/ Explains(line, {}) THEN [cls |-> "conform"] ELSE [cls |-> "safe", why |-> "acceptance differs from the model"]
    ELSE LET S == {d \in SUBSET AsBuilt : d \cap Known # {} /\ Explains(line, d)} IN
         IF S # {} THEN [cls |-> "known", dev |-> CHOOSE d \in S : TRUE]
         ELSE [cls |-> "violation", why |-> "policy ref moved improperly, Apply published an unverifiable state, or an outsider edited the root"]

Init == l = 1
Next == /\ l <= Len(TL)
        /\ PrintT(ToJson([t |-> "CLS", id |-> TL[l].id, err |-> TL[l].err,
                          r |-> IF TL[l].err # "" THEN [cls |-> "error"] ELSE Classify(TL[l]), n |-> Len(TL[l].steps)]))
        /\ l' = l + 1
Spec == Init /\ [][Next]_l
=============================================================================
