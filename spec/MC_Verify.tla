----------------------------- MODULE MC_Verify -----------------------------
(***************************************************************************)
(* Bounded exhaustive exploration of logs for the verifier: every log of   *)
(* up to MaxLen entries over the alphabet below is a state; the invariants *)
(* compare the coded workflow (Layer I, no deviations) with the documented *)
(* verdict (Layer D).  Logs are emitted as scenarios for replay.           *)
(***************************************************************************)
EXTENDS Verify, Json

CONSTANTS MaxLen, Family,    \* "core" | "global" | "recovery"
          EmitMod, EmitRes, AsBuilt

VARIABLES log

P == {"p1", "p2", "p3"}
Refs == {"main", "feat"}
NoApps == <<>>
NoGlobal == [gthr |-> {}, cg |-> {}, bfp |-> {}, all |-> P, apps |-> NoApps]       \* cg: the global rules that come from a controller
MCPol ==
    "A" :> ([rules |-> [main |-> <<[pr |-> {"p1", "p2"}, thr |-> 1]>>, feat |-> <<>>]] @@ NoGlobal)
 @@ "B" :> ([rules |-> [main |-> <<[pr |-> {"p2"}, thr |-> 1]>>, feat |-> <<>>]] @@ NoGlobal)
 @@ "C" :> ([rules |-> [main |-> <<[pr |-> {"p1", "p2", "p3"}, thr |-> 2]>>, feat |-> <<[pr |-> {"p3"}, thr |-> 1]>>]] @@ NoGlobal)
 @@ "G" :> [rules |-> [main |-> <<[pr |-> {"p1", "p2"}, thr |-> 1]>>, feat |-> <<>>], gthr |-> {[refs |-> {"feat"}, thr |-> 1]}, cg |-> {}, bfp |-> {}, all |-> P, apps |-> NoApps]
 @@ "K" :> [rules |-> [main |-> <<[pr |-> {"p1", "p2"}, thr |-> 1]>>, feat |-> <<>>], gthr |-> {[refs |-> {"feat"}, thr |-> 1], [refs |-> {"main"}, thr |-> 2]},
            cg |-> {[refs |-> {"main"}, thr |-> 2]}, bfp |-> {}, all |-> P, apps |-> NoApps]      \* own global rule + a controller's
 @@ "L" :> [rules |-> [main |-> <<[pr |-> {"p1", "p2"}, thr |-> 1]>>, feat |-> <<>>], gthr |-> {[refs |-> {"feat"}, thr |-> 1], [refs |-> {"main"}, thr |-> 2]},
            cg |-> {}, bfp |-> {"main"}, all |-> P, apps |-> NoApps]      \* several global rules of which only some match the reference (declared in every order by the replay)
 @@ "H" :> [rules |-> [main |-> <<[pr |-> {"p1", "p2"}, thr |-> 1]>>, feat |-> <<>>], gthr |-> {}, cg |-> {}, bfp |-> {"main"}, all |-> P, apps |-> NoApps]
 @@ "T" :> [rules |-> [main |-> <<[pr |-> {"p1"}, thr |-> 1]>>, feat |-> <<>>], gthr |-> {[refs |-> {"main", "feat"}, thr |-> 2]}, cg |-> {}, bfp |-> {}, all |-> P, apps |-> NoApps]
 @@ "R" :> [rules |-> [main |-> <<[pr |-> P, thr |-> 2]>>, feat |-> <<>>], gthr |-> {}, cg |-> {}, bfp |-> {}, all |-> P,
            apps |-> [appT |-> [trusted |-> TRUE, key |-> "appkey"], appU |-> [trusted |-> FALSE, key |-> "appkey2"]]]
 @@ "M3" :> ([rules |-> [main |-> <<[pr |-> P, thr |-> 3]>>, feat |-> <<>>]] @@ NoGlobal)
 @@ "T0" :> ([rules |-> [main |-> <<[pr |-> {"p1"}, thr |-> 1]>>, feat |-> <<>>]] @@ NoGlobal)

PolIds == CASE Family = "merge" -> {"A", "C", "M3", "T", "R"} [] Family \in {"window", "tworec"} -> {"A", "B"} [] Family \in {"approvals", "apprskip", "apprlate"} -> {"R"} [] Family = "nopolicy" -> {"A"} [] Family = "chain" -> {"A", "B"} [] Family = "global" -> {"A", "G", "H", "T", "K", "L"} [] Family = "recovery" -> {"A", "B"} [] OTHER -> {"A", "B", "C"}
MainSigners == CASE Family = "merge" -> {"p1"} [] Family \in {"window", "tworec"} -> {"p1", "p3"} [] Family \in {"approvals", "apprskip", "apprlate"} -> {"p1", "kU"} [] Family = "chain" -> {"p1", "p3"} [] Family = "global" -> {"p1", "p3", "kU"} [] Family = "recovery" -> {"p1", "p3"} [] OTHER -> {"p1", "p2", "p3", "kU", "none"}

PrevOf(l, r) == LET S == {j \in 1..Len(l) : IsFor(l[j], r)} IN IF S = {} THEN 0 ELSE Max(S)
RefEntries(l) ==
    {[k |-> "ref", ref |-> "main", s |-> s, tree |-> t, par |-> pr] : s \in MainSigners, t \in {1, 2},
                                                                  pr \in (IF Family \in {"window", "tworec", "apprskip", "apprlate"} THEN {PrevOf(l, "main")} ELSE {0, PrevOf(l, "main")})}
    \cup {[k |-> "ref", ref |-> "feat", s |-> s, tree |-> 1, par |-> PrevOf(l, "feat")] : s \in {"p3", "kU"}}
PropEntries(l) == IF Family \in {"core", "long"} THEN {[k |-> "prop", ref |-> "main", s |-> s, tree |-> 2, par |-> PrevOf(l, "main")] : s \in {"p1", "kU"}} ELSE {}
\* (revoking a policy entry has no effect on which policy applies; "core" and "chain" include such annotations)
AnnEntries(l) == LET R == {i \in 1..Len(l) : l[i].k = "ref" \/ (Family \in {"core", "chain", "long"} /\ l[i].k = "pol" /\ i > 1)} IN
                 {[k |-> "ann", tg |-> {i}, s |-> "p1"] : i \in R}
                 \cup (IF Family \in {"recovery", "tworec"} THEN {[k |-> "ann", tg |-> {i, j}, s |-> "p1"] : i, j \in R} ELSE {})
App(r, f, t, sr, sf, st, by) == [ref |-> r, from |-> f, tree |-> t, sref |-> sr, sfrom |-> sf, stree |-> st, by |-> by]
Cr(r, f, t, sr, sf, st, app, signer, ap) == [ref |-> r, from |-> f, tree |-> t, sref |-> sr, sfrom |-> sf, stree |-> st, app |-> app,
                                             signer |-> signer, approvers |-> ap, dismissed |-> {}]
AttEntries(l) ==
    IF Family \in {"recovery", "chain", "window", "tworec"} THEN {}
    ELSE IF Family \in {"approvals", "apprskip", "apprlate"} THEN
         LET f == PrevOf(l, "main")
             pm == IF f = 0 THEN 0 ELSE PrevOf(SubSeq(l, 1, f - 1), "main")      \* the entry before the latest one
             Late(by) == App("main", pm, l[f].tree, "main", pm, l[f].tree, by)    \* an approval of the change the latest entry already made
         IN
         \* authorizations and code-review approvals for the next change of main (tree 1 or 2), stored at the matching path or at
         \* the path of the other tree, with statements naming either; signed by trusted / untrusted keys
         {[k |-> "att", apps |-> {App("main", f, t, "main", f, st, by)}, crs |-> {}] : t \in {1, 2}, st \in {1, 2}, by \in {{"p2"}, {"kU"}}}
         \cup {[k |-> "att", apps |-> {}, crs |-> {Cr("main", f, t, "main", f, st, app, sg, ap)}] :
                   t \in {1, 2}, st \in {1, 2}, app \in {"appT", "appU"}, sg \in {"appkey", "kU"}, ap \in {{"p2"}, {"p1", "p2"}}}
         \cup {[k |-> "att", apps |-> {App("main", f, 1, "main", f, 1, {"p2"})}, crs |-> {Cr("main", f, 1, "main", f, 1, "appT", "appkey", {"p2", "p3"})}]}
         \cup {[k |-> "att", apps |-> {App("main", f, 1, "feat", f, 1, {"p2"})}, crs |-> {}], [k |-> "att", apps |-> {App("main", f, 1, "main", 0, 1, {"p2"})}, crs |-> {}]}
         \cup (IF Family = "apprlate" /\ f # 0
               THEN {[k |-> "att", apps |-> {Late({"p2"})}, crs |-> {}]}
                    \cup {[k |-> "att", apps |-> {Late({"p2"}), App("main", f, t, "main", f, t, {"p2"})}, crs |-> {}] : t \in {1, 2}}
               ELSE {})
    ELSE IF Family = "merge" THEN
         {[k |-> "att", apps |-> {App("main", PrevOf(l, "main"), t, "main", PrevOf(l, "main"), t, by)}, crs |-> {}] :
              t \in {1, 2}, by \in {{"p1"}, {"p2"}, {"p2", "p3"}, {"p1", "p2", "p3"}, {"kU"}}}
         \* both kinds of approval for the same change: an authorization and a code-review approval by a trusted app
         \cup {[k |-> "att", apps |-> IF wa THEN {App("main", PrevOf(l, "main"), t, "main", PrevOf(l, "main"), t, {"p2"})} ELSE {},
                 crs |-> {Cr("main", PrevOf(l, "main"), t, "main", PrevOf(l, "main"), t, "appT", "appkey", ap)}] :
                  t \in {1, 2}, ap \in {{"p3"}, {"p2"}, {"p2", "p3"}}, wa \in BOOLEAN}
    ELSE {[k |-> "att", apps |-> {App("main", f, t, "main", f, t, by)}, crs |-> {}] :
              f \in {PrevOf(l, "main")}, t \in {1, 2}, by \in {{"p2"}, {"p2", "p3"}}}
         \cup {[k |-> "att", apps |-> {}, crs |-> {}]}
OtherEntries(l) == {[k |-> "pol", v |-> v, cv |-> c, sv |-> x] : v \in PolIds, c \in (IF Family = "chain" THEN BOOLEAN ELSE {TRUE}),
                                                                  x \in (IF Family = "chain" THEN BOOLEAN ELSE {TRUE})} \cup (IF Family \in {"core", "long"} THEN {[k |-> "stg"]} ELSE {})

\* shape-guided families: the kind of entry at each position is prescribed, which makes long histories around the
\* recovery loop affordable ("window": policy change between a revoked violation and its fix; "tworec": two recoveries)
Shape == CASE Family = "window" -> <<"ref", "ref", "annpol", "annpol", "ref", "ref">>
           [] Family = "tworec" -> <<"ref", "ref", "ref", "ref", "ref", "ann", "ref">>
           [] Family = "apprskip" -> <<"att", "ref", "ann", "ref">>          \* an approved entry is revoked and its change submitted again
           [] Family = "apprlate" -> <<"ref", "att", "ref">>                 \* approvals recorded after the entry they would have authorised
           [] OTHER -> <<>>
Shaped == Family \in {"window", "tworec", "apprskip", "apprlate"}
ShapeAt(l) == Shape[Len(l)]          \* position Len(l)+1 of the log is position Len(l) of the shape (after the initial policy)
FullAlphabet(l) == RefEntries(l) \cup PropEntries(l) \cup AnnEntries(l) \cup AttEntries(l) \cup OtherEntries(l)
Alphabet(l) == IF ~Shaped THEN FullAlphabet(l)
               ELSE IF Len(l) > Len(Shape) THEN {}
               ELSE {e \in FullAlphabet(l) : CASE ShapeAt(l) = "ref" -> e.k = "ref" /\ e.ref = "main"
                                                [] ShapeAt(l) = "ann" -> e.k = "ann"
                                                [] ShapeAt(l) = "att" -> e.k = "att"
                                                [] ShapeAt(l) = "annpol" -> e.k \in {"ann", "pol"}
                                                [] OTHER -> FALSE}

Init == log \in (IF Family = "nopolicy" THEN {<<>>} ELSE {<<[k |-> "pol", v |-> (IF Family \in {"approvals", "apprskip", "apprlate"} THEN "R" ELSE "A"), cv |-> TRUE, sv |-> TRUE]>>})
Next == /\ Len(log) < MaxLen
        /\ \E e \in Alphabet(log) : log' = Append(log, e)
Spec == Init /\ [][Next]_log

\* C01: the coded workflow without deviations returns the documented verdict
C01Refines == \A r \in Refs : Between(OkOrFail(Impl(log, r, {})), DVerdictC01(log, r, FALSE), DVerdictC01(log, r, TRUE))
\* C02: every mode fails when a policy entry it depends on breaks the chain or is not self-valid; modes agree
RefPositions(r) == {i \in 1..Len(log) : log[i].k = "ref" /\ log[i].ref = r}
C02Refines == \A r \in Refs :
                 /\ Between(OkOrFail(ImplLatest(log, r, {})), DVerdictLatest(log, r, FALSE), DVerdictLatest(log, r, TRUE))
                 /\ \A i \in RefPositions(r) : Between(OkOrFail(ImplFrom(log, r, i, {})), DVerdictFrom(log, r, i, FALSE), DVerdictFrom(log, r, i, TRUE))
                 /\ (Impl(log, r, {}) = "ok" => ImplLatest(log, r, {}) = "ok")
\* C19: the mergeability answer agrees with verification of the merge once recorded (side conditions of the statement:
\* the branch's previous entry is unskipped -- built into the prediction -- and the prediction is made at the end of the log)
C19Side == HasEntries(log, "main") /\ LatestUnskippedFor(log, "main") = LatestFor(log, "main")     \* the previous entry is unskipped
C19Agrees == \A tree \in {1, 2} : C19Side =>
                MergeAgrees(log, "main", tree, MergePredictI(log, "main", tree, {}), LAMBDA s : MergeVerifies(log, "main", tree, s, {}))
\* C09 is C01Refines over the approvals family (statement-bound approvals, code-review approvals)
\* C11: global rules only add constraints -- removing them never turns an accepted history into a rejected one
Strip == "M3" :> "M3" @@ "R" :> "R" @@ "A" :> "A" @@ "B" :> "B" @@ "C" :> "C" @@ "G" :> "A" @@ "H" :> "A" @@ "T" :> "T0" @@ "K" :> "A" @@ "L" :> "A"
StripLog(l) == [i \in DOMAIN l |-> IF l[i].k = "pol" THEN [l[i] EXCEPT !.v = Strip[l[i].v]] ELSE l[i]]
C11Mono == \A r \in Refs : /\ Impl(log, r, {}) = "ok" => Impl(StripLog(log), r, {}) = "ok"
                           /\ DVerdictC01(log, r, TRUE) = "ok" => DVerdictC01(StripLog(log), r, TRUE) = "ok"
\* C07: the workflow as coded (fix not re-verified) tolerates exactly the repaired violations
C07Refines == \A r \in Refs : Between(OkOrFail(Impl(log, r, {"FixEntryNotVerified"})), DVerdictC07(log, r, FALSE), DVerdictC07(log, r, TRUE))

Interesting == \E r \in Refs : Impl(log, r, AsBuilt) # Impl(log, r, {}) \/ Impl(log, r, {}) \in {"notskipped", "notfound"}
                                \/ (\E i \in 1..Len(log) : IsFor(log[i], r) /\ Skipped(log, i) /\ Impl(log, r, {}) = "ok")
\* a policy (or attestations) entry lies between a revoked violation and its fix, and something follows the fix:
\* the re-queueing branch of the recovery loop (always emitted)
WindowCase == \E r \in Refs : \E i \in 1..Len(log) :
                 /\ IsFor(log[i], r) /\ log[i].k = "ref" /\ Skipped(log, i) /\ ~Authorized(log, i, TRUE) /\ FixOf(log, i) # 0
                 /\ \E p \in (i + 1)..(FixOf(log, i) - 1) : log[p].k \in {"pol", "att"}
                 /\ \E q \in (FixOf(log, i) + 1)..Len(log) : IsFor(log[q], r)
\* two separate recoveries in one history
TwoRecoveries == \E r \in Refs : \E i, j \in 1..Len(log) :
                    /\ i < j /\ IsFor(log[i], r) /\ IsFor(log[j], r) /\ log[i].k = "ref" /\ log[j].k = "ref"
                    /\ Skipped(log, i) /\ Skipped(log, j) /\ FixOf(log, i) # 0 /\ FixOf(log, i) < j /\ FixOf(log, j) # 0
Weight == LET RECURSIVE W(_, _)
              W(l, n) == IF l = <<>> THEN 0 ELSE n * (Len(Head(l).k) + (IF Head(l).k \in {"ref", "prop"} THEN Head(l).tree * 5 + Head(l).par * 3 + Len(Head(l).s) ELSE 1)) + W(Tail(l), n + 1)
          IN W(log, 1)
Norm(e) == CASE e.k = "ann" -> [k |-> "ann", tg |-> SetToSeq(e.tg), s |-> e.s]
             [] e.k = "att" -> [k |-> "att", apps |-> SetToSeq({[a EXCEPT !.by = SetToSeq(a.by)] : a \in e.apps}),
                                crs |-> SetToSeq({[a EXCEPT !.approvers = SetToSeq(a.approvers), !.dismissed = SetToSeq(a.dismissed)] : a \in e.crs})]
             [] OTHER -> e
PolJson == [v \in PolIds \cup {Strip[x] : x \in PolIds} |-> [rules |-> [r \in Refs |-> [n \in DOMAIN Pol[v].rules[r] |-> [pr |-> SetToSeq(Pol[v].rules[r][n].pr), thr |-> Pol[v].rules[r][n].thr]]],
                              gthr |-> SetToSeq({[refs |-> SetToSeq(x.refs), thr |-> x.thr] : x \in Pol[v].gthr \ Pol[v].cg}),
                              cgthr |-> SetToSeq({[refs |-> SetToSeq(x.refs), thr |-> x.thr] : x \in Pol[v].cg}),
                              bfp |-> SetToSeq(Pol[v].bfp), all |-> SetToSeq(Pol[v].all), apps |-> Pol[v].apps]]
Emit == IF Len(log) <= 1 /\ (log = <<>> \/ log[1].k = "pol")
        THEN PrintT(ToJson([t |-> "POL", pol |-> PolJson, strip |-> [v \in PolIds |-> Strip[v]]]))
        ELSE IF Family = "long"          \* long random histories (simulation mode): only complete ones are replayed
        THEN (IF Len(log) = MaxLen /\ (\E r \in Refs : HasEntries(log, r))
              THEN PrintT(ToJson([t |-> "SCN", fam |-> Family, log |-> [i \in DOMAIN log |-> Norm(log[i])]])) ELSE TRUE)
        ELSE IF Len(log) >= 2 /\ (\E r \in Refs : HasEntries(log, r))
           /\ ((Interesting /\ Weight % 7 = EmitRes % 7) \/ Weight % EmitMod = EmitRes \/ WindowCase \/ TwoRecoveries
               \/ (Family \in {"apprskip", "apprlate"} /\ Len(log) = Len(Shape) + 1))
        THEN PrintT(ToJson([t |-> "SCN", fam |-> Family, log |-> [i \in DOMAIN log |-> Norm(log[i])]]))
        ELSE TRUE
=============================================================================
