---------------------------- MODULE Trace_Sandbox ----------------------------
(***************************************************************************)
(* Trace validation for C20.  Line 1 is the environment of a real          *)
(* LuaEnvironment walked from the Go side (globals, library tables, their  *)
(* metatables, the string metatable, function environments and upvalues);  *)
(* the other lines are programs of the escape / non-termination / return   *)
(* grammar run through RunScript with a 1 s timeout and a hard outer       *)
(* deadline.                                                               *)
(***************************************************************************)
EXTENDS Sandbox, Json, SequencesExt

CONSTANTS Known, AsBuilt, TimeoutMs, EpsMs
TL == ndJsonDeserialize("trace.ndjson")
VARIABLE l

ObsEnv(e) == [globals |-> DOMAIN e.globals,
              tables |-> [lb \in Libs |-> IF lb \in DOMAIN e.tables THEN ToSet(e.tables[lb]) ELSE {}],
              prot |-> ToSet(e.prot)]

ClassifyEnv(e) ==
    LET apis == ToSet(e.apis) env == ObsEnv(e)
        extraStr == {"string." \o m : m \in ToSet(e.strmeta)} IN
    IF e.anomalies # <<>> THEN [cls |-> "violation", why |-> "function environment / upvalue / nested table outside the modelled closure"]
    ELSE IF ~Confined(env, apis) \/ ~(extraStr \subseteq PurePaths(apis)) \/ extraStr \cap ForbiddenPaths # {}
    THEN [cls |-> "violation", why |-> "a forbidden or unknown value is reachable, or a library table is not protected"]
    ELSE IF Reach(env) = Reach(Build(apis, {})) /\ env.prot = Build(apis, {}).prot THEN [cls |-> "conform"]
    ELSE [cls |-> "safe", why |-> "environment differs from the modelled construction but stays confined"]

LibraryLoops == {"find-blowup", "gsub-blowup"}
ClassifyProg(p, o) ==
    IF OutcomeOK(p, o, TimeoutMs, EpsMs) THEN [cls |-> "conform"]
    ELSE IF p.cls = "loop" /\ p.via \in LibraryLoops /\ o.res \in {"hung", "timeout"} /\ "LibraryCallNotInterruptible" \in Known
    THEN [cls |-> "known", dev |-> {"LibraryCallNotInterruptible"}]
    ELSE IF p.cls = "loop" /\ p.via = "recursion" /\ o.res \in {"hung", "timeout"} /\ "TailCallTracebackAfterDeadline" \in Known
    THEN [cls |-> "known", dev |-> {"TailCallTracebackAfterDeadline"}]
    ELSE [cls |-> "violation", why |-> "outcome " \o o.res \o " where " \o Expected(p) \o " is required"]

Init == l = 1
Next == /\ l <= Len(TL)
        /\ PrintT(ToJson([t |-> "CLS", id |-> TL[l].id, kind |-> TL[l].kind,
                          r |-> IF TL[l].kind = "env" THEN ClassifyEnv(TL[l].env) ELSE ClassifyProg(TL[l].prog, TL[l].obs)]))
        /\ l' = l + 1
Spec == Init /\ [][Next]_l
=============================================================================
