---------------------------- MODULE EntryCodec ----------------------------
(***************************************************************************)
(* Line-token model of the RSL entry text codec (pkg/rsl: createCommit-    *)
(* Message and the three parser state machines).                           *)
(*                                                                         *)
(* A text is  [hdr, sep, body]:                                            *)
(*   hdr  \in {"ref","ann","prop"}  first line equals that header exactly  *)
(*        "refx","annx","propx"     first line merely STARTS with it       *)
(*        "none"                    anything else                          *)
(*   sep  TRUE iff the second line exists and is blank after trimming      *)
(*   body sequence of line tokens [k, ok, v]:                              *)
(*        k  \in {"ref","tid","num","eid","skip","upr","upe","unk",        *)
(*                "nocolon","begin"}                                       *)
(*        ok value is well formed (hex id of length 40/64, decimal number, *)
(*           true/false); v the abstract value (Nat)                       *)
(*   "nocolon" stands for every line without ':' (blank, garbage, base64,  *)
(*   the end marker); "begin" is the message begin marker line.            *)
(*                                                                         *)
(* Layer I: ParseRefI / ParseAnnI / ParsePropI  -- the state machines      *)
(* Layer D: ParseD -- "each security relevant field exactly once, in the   *)
(*          documented order, all values well formed"                      *)
(***************************************************************************)
EXTENDS Integers, Sequences, FiniteSets, SequencesExt, TLC

Reject == [acc |-> FALSE]

Tok(k, ok, v) == [k |-> k, ok |-> ok, v |-> v]

(***************************************************************************)
(* Layer I                                                                 *)
(***************************************************************************)
\* reference entry: states 0 expectRef, 1 expectTargetID, 2 expectNumber, 3 done
RECURSIVE RefSM(_, _, _)
RefSM(body, st, e) ==
    IF body = <<>> THEN (IF st < 2 THEN Reject ELSE [e EXCEPT !.acc = TRUE])
    ELSE LET t == Head(body) rest == Tail(body) IN
         CASE t.k \in {"nocolon", "begin"} -> Reject
           [] t.k = "ref" -> IF st # 0 THEN Reject ELSE RefSM(rest, 1, [e EXCEPT !.ref = t.v])
           [] t.k = "tid" -> IF st # 1 \/ ~t.ok THEN Reject ELSE RefSM(rest, 2, [e EXCEPT !.tid = t.v])
           [] t.k = "num" -> IF st # 2 \/ ~t.ok THEN Reject ELSE RefSM(rest, 3, [e EXCEPT !.num = t.v])
           [] OTHER -> RefSM(rest, st, e)
ParseRefI(body) == RefSM(body, 0, [acc |-> FALSE, kind |-> "ref", ref |-> 0, tid |-> 0, num |-> 0])

\* annotation: states 0 expectEntryID, 1 expectNumber, 2 done; stops at the begin marker
RECURSIVE AnnSM(_, _, _)
AnnSM(body, st, e) ==
    IF body = <<>> \/ Head(body).k = "begin" THEN (IF st < 1 THEN Reject ELSE [e EXCEPT !.acc = TRUE])
    ELSE LET t == Head(body) rest == Tail(body) IN
         CASE t.k = "nocolon" -> Reject
           [] t.k = "eid"  -> IF st # 0 \/ ~t.ok THEN Reject ELSE AnnSM(rest, 0, [e EXCEPT !.eids = Append(@, t.v)])
           [] t.k = "skip" -> IF st # 0 \/ e.eids = <<>> \/ ~t.ok THEN Reject ELSE AnnSM(rest, 1, [e EXCEPT !.skip = t.v])
           [] t.k = "num"  -> IF st # 1 \/ ~t.ok THEN Reject ELSE AnnSM(rest, 2, [e EXCEPT !.num = t.v])
           [] OTHER -> AnnSM(rest, st, e)
ParseAnnI(body) == AnnSM(body, 0, [acc |-> FALSE, kind |-> "ann", eids |-> <<>>, skip |-> 0, num |-> 0])

\* propagation: 0 ref, 1 tid, 2 upr, 3 upe, 4 expectNumber, 5 done
RECURSIVE PropSM(_, _, _)
PropSM(body, st, e) ==
    IF body = <<>> THEN (IF st < 4 THEN Reject ELSE [e EXCEPT !.acc = TRUE])
    ELSE LET t == Head(body) rest == Tail(body) IN
         CASE t.k \in {"nocolon", "begin"} -> Reject
           [] t.k = "ref" -> IF st # 0 THEN Reject ELSE PropSM(rest, 1, [e EXCEPT !.ref = t.v])
           [] t.k = "tid" -> IF st # 1 \/ ~t.ok THEN Reject ELSE PropSM(rest, 2, [e EXCEPT !.tid = t.v])
           [] t.k = "upr" -> IF st # 2 THEN Reject ELSE PropSM(rest, 3, [e EXCEPT !.upr = t.v])
           [] t.k = "upe" -> IF st # 3 \/ ~t.ok THEN Reject ELSE PropSM(rest, 4, [e EXCEPT !.upe = t.v])
           [] t.k = "num" -> IF st # 4 \/ ~t.ok THEN Reject ELSE PropSM(rest, 5, [e EXCEPT !.num = t.v])
           [] OTHER -> PropSM(rest, st, e)
ParsePropI(body) == PropSM(body, 0, [acc |-> FALSE, kind |-> "prop", ref |-> 0, tid |-> 0, upr |-> 0, upe |-> 0, num |-> 0])

ParseI(t) ==
    IF ~t.sep THEN Reject
    ELSE CASE t.hdr = "ref"  -> ParseRefI(t.body)
           [] t.hdr = "ann"  -> ParseAnnI(t.body)
           [] t.hdr = "prop" -> ParsePropI(t.body)
           [] OTHER -> Reject

(***************************************************************************)
(* Layer D                                                                 *)
(***************************************************************************)
Relevant(kind) == CASE kind = "ref"  -> {"ref", "tid", "num"}
                    [] kind = "ann"  -> {"eid", "skip", "num"}
                    [] kind = "prop" -> {"ref", "tid", "upr", "upe", "num"}
                    [] OTHER -> {}

\* the part of the body the entry is read from: for annotations everything
\* before the message begin marker
RECURSIVE UpToBegin(_)
UpToBegin(body) == IF body = <<>> \/ Head(body).k = "begin" THEN <<>> ELSE <<Head(body)>> \o UpToBegin(Tail(body))
Scope(kind, body) == IF kind = "ann" THEN UpToBegin(body) ELSE body

Fields(kind, body) == SelectSeq(Scope(kind, body), LAMBDA t : t.k \in Relevant(kind))
Keys(f) == [i \in DOMAIN f |-> f[i].k]

\* documented field order, number optional and last
OrderOK(kind, ks) ==
    CASE kind = "ref"  -> ks \in {<<"ref", "tid">>, <<"ref", "tid", "num">>}
      [] kind = "prop" -> ks \in {<<"ref", "tid", "upr", "upe">>, <<"ref", "tid", "upr", "upe", "num">>}
      [] kind = "ann"  -> /\ Len(ks) >= 2
                          /\ \E n \in 1..(Len(ks) - 1) : /\ \A i \in 1..n : ks[i] = "eid"
                                                   /\ ks[n + 1] = "skip"
                                                   /\ (Len(ks) = n + 1 \/ (Len(ks) = n + 2 /\ ks[n + 2] = "num"))
      [] OTHER -> FALSE

ValOf(f, k) == LET S == {i \in DOMAIN f : f[i].k = k} IN IF S = {} THEN 0 ELSE f[CHOOSE i \in S : TRUE].v

ParseD(t) ==
    IF ~t.sep \/ t.hdr \notin {"ref", "ann", "prop"} THEN Reject
    ELSE LET sc == Scope(t.hdr, t.body)
             f  == Fields(t.hdr, t.body)
         IN IF \E i \in DOMAIN sc : sc[i].k \in {"nocolon", "begin"} THEN Reject
            ELSE IF ~OrderOK(t.hdr, Keys(f)) THEN Reject
            ELSE IF \E i \in DOMAIN f : ~f[i].ok THEN Reject
            ELSE CASE t.hdr = "ref"  -> [acc |-> TRUE, kind |-> "ref", ref |-> ValOf(f, "ref"), tid |-> ValOf(f, "tid"), num |-> ValOf(f, "num")]
                   [] t.hdr = "prop" -> [acc |-> TRUE, kind |-> "prop", ref |-> ValOf(f, "ref"), tid |-> ValOf(f, "tid"),
                                         upr |-> ValOf(f, "upr"), upe |-> ValOf(f, "upe"), num |-> ValOf(f, "num")]
                   [] t.hdr = "ann"  -> [acc |-> TRUE, kind |-> "ann",
                                         eids |-> [i \in 1..Cardinality({j \in DOMAIN f : f[j].k = "eid"}) |-> f[i].v],
                                         skip |-> ValOf(f, "skip"), num |-> ValOf(f, "num")]

(***************************************************************************)
(* Serialiser (createCommitMessage): canonical token text of an entry.     *)
(* hasMsg: the annotation carries a non-empty message (begin marker line   *)
(* and block follow; their content is opaque to the token model).          *)
(***************************************************************************)
NumTok(n) == IF n > 0 THEN <<Tok("num", TRUE, n)>> ELSE <<>>
Ser(e, hasMsg) ==
    CASE e.kind = "ref"  -> [hdr |-> "ref", sep |-> TRUE,
                             body |-> <<Tok("ref", TRUE, e.ref), Tok("tid", TRUE, e.tid)>> \o NumTok(e.num)]
      [] e.kind = "prop" -> [hdr |-> "prop", sep |-> TRUE,
                             body |-> <<Tok("ref", TRUE, e.ref), Tok("tid", TRUE, e.tid), Tok("upr", TRUE, e.upr),
                                        Tok("upe", TRUE, e.upe)>> \o NumTok(e.num)]
      [] e.kind = "ann"  -> [hdr |-> "ann", sep |-> TRUE,
                             body |-> [i \in DOMAIN e.eids |-> Tok("eid", TRUE, e.eids[i])]
                                      \o <<Tok("skip", TRUE, e.skip)>> \o NumTok(e.num)
                                      \o (IF hasMsg THEN <<Tok("begin", TRUE, 0), Tok("nocolon", TRUE, 0), Tok("nocolon", TRUE, 0)>> ELSE <<>>)]

Idempotent(t) == LET p == ParseI(t) IN p.acc => ParseI(Ser(p, FALSE)) = p /\ ParseI(Ser(p, TRUE)) = p
=============================================================================
