--------------------------- MODULE MC_VerifyCache ---------------------------
(***************************************************************************)
(* All sequences of Grow / Populate / Delete / Verify actions up to MaxLen *)
(* over a small entry alphabet: with an ideal cache every Verify answers   *)
(* what the cache-less verifier answers, whatever the cache went through.  *)
(***************************************************************************)
EXTENDS VerifyCache, Json

CONSTANTS MaxLen, Dev, AsBuilt, EmitMod, EmitRes
VARIABLES w, acts

P == {"p1", "p2", "p3"}
MCPol ==
    "A" :> [rules |-> [main |-> <<[pr |-> {"p1", "p2"}, thr |-> 1]>>, feat |-> <<>>], gthr |-> {}, bfp |-> {}, all |-> P, apps |-> <<>>]
 @@ "B" :> [rules |-> [main |-> <<[pr |-> {"p2"}, thr |-> 1]>>, feat |-> <<>>], gthr |-> {}, bfp |-> {}, all |-> P, apps |-> <<>>]

PrevOf(l, r) == LET S == {j \in 1..Len(l) : IsFor(l[j], r)} IN IF S = {} THEN 0 ELSE Max(S)
Entries(l) ==
    {[k |-> "pol", v |-> v, cv |-> TRUE, sv |-> TRUE] : v \in {"A", "B"}}
    \cup {[k |-> "ref", ref |-> "main", s |-> s, tree |-> t, par |-> PrevOf(l, "main")] : s \in {"p1", "p3"}, t \in {1, 2}}
    \cup {[k |-> "ann", tg |-> {i}, s |-> "p1"] : i \in {j \in 1..Len(l) : l[j].k = "ref" \/ (l[j].k = "pol" /\ j > 1)}}     \* revoking a policy entry has no effect
Actions(l) == {[a |-> "grow", e |-> e] : e \in Entries(l)} \cup {[a |-> "populate"], [a |-> "delete"]}
              \cup {[a |-> "verify", mode |-> m, ref |-> "main"] : m \in {"full", "latest"}}

Init == w = [log |-> <<[k |-> "pol", v |-> "A", cv |-> TRUE, sv |-> TRUE]>>, cache |-> NoCache] /\ acts = <<>>
Next == /\ Len(acts) < MaxLen
        /\ \E a \in Actions(w.log) : w' = Step(w, a, Dev).w /\ acts' = Append(acts, a)
Spec == Init /\ [][Next]_<<w, acts>>
View == w

\* C08: an ideal cache is invisible
CacheInvisible == /\ VerifyFullC(w, "main", {}).res = Impl(w.log, "main", {})
                  /\ VerifyLatestC(w, "main", {}).res = ImplLatest(w.log, "main", {})

Manifest == VerifyFullC(w, "main", AsBuilt).res # Impl(w.log, "main", AsBuilt) \/ VerifyLatestC(w, "main", AsBuilt).res # ImplLatest(w.log, "main", AsBuilt)
Weight == Len(acts) * 5 + Len(w.log) * 3 + Cardinality(w.cache.pol) * 7 + w.cache.last["main"] * 11 + (IF w.cache.on THEN 13 ELSE 0)
Norm(a) == IF a.a = "grow" /\ a.e.k = "ann" THEN [a EXCEPT !.e = [k |-> "ann", tg |-> SetToSeq(a.e.tg), s |-> a.e.s]] ELSE a
\* a revoked policy entry (revocation of a policy entry has no effect: every lookup must keep applying it)
RevokedPolicy == \E i \in 2..Len(w.log) : w.log[i].k = "pol" /\ \E j \in (i + 1)..Len(w.log) : w.log[j].k = "ann" /\ i \in w.log[j].tg
Emit == IF acts # <<>> /\ acts[Len(acts)].a = "verify" /\ (Manifest \/ Weight % EmitMod = EmitRes \/ (RevokedPolicy /\ (Len(acts) <= 6 \/ (Weight + Len(acts) + Len(w.log)) % 7 = EmitRes % 7)))
        THEN PrintT(ToJson([t |-> "SCN", acts |-> [i \in DOMAIN acts |-> Norm(acts[i])]]))
        ELSE IF acts = <<>> THEN PrintT(ToJson([t |-> "POL", pol |-> [v \in {"A", "B"} |->
                 [rules |-> [r \in {"main", "feat"} |-> [n \in DOMAIN Pol[v].rules[r] |-> [pr |-> SetToSeq(Pol[v].rules[r][n].pr), thr |-> Pol[v].rules[r][n].thr]]],
                  gthr |-> <<>>, bfp |-> <<>>, all |-> SetToSeq(Pol[v].all), apps |-> <<>>]]]))
        ELSE TRUE
=============================================================================
