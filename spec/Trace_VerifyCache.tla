-------------------------- MODULE Trace_VerifyCache --------------------------
(***************************************************************************)
(* Trace validation for C08: a line is a sequence of Grow / Populate /     *)
(* Delete / Verify actions performed on one real repository; every Verify  *)
(* was also run on a cache-less copy of the same repository, and the refs  *)
(* were listed before and after.                                           *)
(***************************************************************************)
EXTENDS VerifyCache, Json

CONSTANTS Known, AsBuilt
TL == ndJsonDeserialize("trace.ndjson")
PolTab == ndJsonDeserialize("pol.ndjson")[1].pol
VARIABLE l

ToS(seq) == {seq[x] : x \in DOMAIN seq}
TracePol == [v \in DOMAIN PolTab |->
                [rules |-> [r \in DOMAIN PolTab[v].rules |-> [n \in DOMAIN PolTab[v].rules[r] |->
                                [pr |-> ToS(PolTab[v].rules[r][n].pr), thr |-> PolTab[v].rules[r][n].thr]]],
                 gthr |-> {}, bfp |-> {}, all |-> ToS(PolTab[v].all), apps |-> <<>>]]

E(e) == CASE e.k = "ann" -> [k |-> "ann", tg |-> ToS(e.tg), s |-> e.s]
          [] e.k = "pol" -> [k |-> "pol", v |-> e.v, cv |-> e.cv, sv |-> e.sv]
          [] OTHER -> [k |-> e.k, ref |-> e.ref, s |-> e.s, tree |-> e.tree, par |-> e.par]
Act(a) == CASE a.a = "grow" -> [a |-> "grow", e |-> E(a.e)]
            [] a.a = "verify" -> [a |-> "verify", mode |-> a.mode, ref |-> a.ref]
            [] OTHER -> [a |-> a.a]
Acts(line) == [i \in DOMAIN line.scn.acts |-> Act(line.scn.acts[i])]
W0 == [log |-> <<[k |-> "pol", v |-> "A", cv |-> TRUE, sv |-> TRUE]>>, cache |-> NoCache]

IsVerify(line, i) == line.scn.acts[i].a = "verify"
\* Layer D: the answer (verdict and tip) equals the cache-less answer; no reference but the cache moved
DOK(line) == \A i \in DOMAIN line.steps : IsVerify(line, i) =>
                /\ OkOrFail(line.steps[i].res) = OkOrFail(line.steps[i].twin)
                /\ line.steps[i].tip = line.steps[i].twinTip
                /\ ~line.steps[i].refsMoved
\* the model with deviations d predicts both what the repository with the cache answered and what the cache-less copy answered
WorldBefore(run, i) == IF i = 1 THEN W0 ELSE run[i - 1].w
Explains(line, d) == LET run == Run(W0, Acts(line), d) acts == Acts(line) IN
                     \A i \in DOMAIN run : IsVerify(line, i) =>
                        /\ OkOrFail(run[i].res) = OkOrFail(line.steps[i].res)
                        /\ OkOrFail(line.steps[i].twin) = OkOrFail(IF acts[i].mode = "full" THEN Impl(WorldBefore(run, i).log, acts[i].ref, d)
                                                                   ELSE ImplLatest(WorldBefore(run, i).log, acts[i].ref, d))

Classify(line) ==
    IF DOK(line) THEN (IF Explains(line, AsBuilt) \/ Explains(line, {}) THEN [cls |-> "conform"] ELSE [cls |-> "safe", why |-> "verdicts differ from the model's"])
    ELSE IF \E i \in DOMAIN line.steps : IsVerify(line, i) /\ line.steps[i].refsMoved THEN [cls |-> "violation", why |-> "verification changed a reference other than the cache"]
    ELSE LET S == {d \in SUBSET AsBuilt : d \cap Known # {} /\ Explains(line, d)} IN
         IF S # {} THEN [cls |-> "known", dev |-> CHOOSE d \in S : \A d2 \in S : Cardinality(d) <= Cardinality(d2)]
         ELSE [cls |-> "violation", why |-> "a verdict depends on the cache state"]

Init == l = 1
Next == /\ l <= Len(TL)
        /\ PrintT(ToJson([t |-> "CLS", id |-> TL[l].id, err |-> TL[l].err, r |-> IF TL[l].err # "" THEN [cls |-> "error"] ELSE Classify(TL[l]),
                          n |-> Len(TL[l].steps)]))
        /\ l' = l + 1
Spec == Init /\ [][Next]_l
=============================================================================
