SPECIFICATION Spec
CONSTANTS
  Apis = {"matchRegex", "strSplit", "gitReadBlob"}
INVARIANT ConstructionConfines
INVARIANT Teeth
CONSTRAINT Emit
CHECK_DEADLOCK FALSE
