SPECIFICATION Spec
CONSTANTS
  Dev = {}
INVARIANT PostConditions
CHECK_DEADLOCK FALSE
