SPECIFICATION Spec
CONSTANTS
  Known = {"UntilEntryIdExclusive", "UntilNotAppliedAtBeforeAnchor", "BeforeAnchorBelowUntilId"}
  AsBuilt = {"UntilEntryIdExclusive", "UntilNotAppliedAtBeforeAnchor", "BeforeAnchorBelowUntilId"}
CHECK_DEADLOCK FALSE
