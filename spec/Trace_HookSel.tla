----------------------------- MODULE Trace_HookSel -----------------------------
(* Trace validation of hook selection: each line is a policy with hooks built   *)
(* in a real repository and InvokeHooksForStage(pre-commit) called with a key.  *)
EXTENDS Sandbox, Json, SequencesExt

TL == ndJsonDeserialize("trace.ndjson")
VARIABLE l

Hooks(x) == {[name |-> x.scn.hooks[i].name, stages |-> ToSet(x.scn.hooks[i].stages), pr |-> ToSet(x.scn.hooks[i].pr)] : i \in DOMAIN x.scn.hooks}
Classify(x) ==
    IF x.err # "" THEN [cls |-> "infra", why |-> x.err]
    ELSE LET r == SelResult(Hooks(x), "pre", x.scn.key) IN
         IF x.obs.res = r.res /\ ToSet(x.obs.ran) = r.ran /\ x.obs.bad = <<>> THEN [cls |-> "conform"]
         ELSE IF ToSet(x.obs.ran) \subseteq r.ran /\ x.obs.bad = <<>> /\ x.obs.res # "ok"
              THEN [cls |-> "safe", why |-> "hooks assigned to the principal were not run (stricter than required)"]
         ELSE [cls |-> "violation", why |-> "hooks run: " \o ToString(ToSet(x.obs.ran)) \o ", assigned: " \o ToString(r.ran) \o ", result " \o x.obs.res]

Init == l = 1
Next == /\ l <= Len(TL)
        /\ PrintT(ToJson([t |-> "CLS", id |-> TL[l].id, kind |-> "sel", r |-> Classify(TL[l])]))
        /\ l' = l + 1
Spec == Init /\ [][Next]_l
=============================================================================
