--------------------------- MODULE MC_Signatures ---------------------------
(***************************************************************************)
(* All verifier inputs up to the bounds: principals with 1-2 keys each     *)
(* (shared or not), thresholds 0..MaxThr, every Git signer, every set of   *)
(* valid envelope signers, with and without junk signatures.               *)
(***************************************************************************)
EXTENDS Signatures, Json

CONSTANTS NP,          \* max number of principals
          KeyPool,     \* keys principals draw from
          MaxThr,
          EmitMod, EmitRes

VARIABLES in, done

PNames == <<"p1", "p2", "p3", "p4">>
KeySets == {S \in SUBSET KeyPool : Cardinality(S) \in {1, 2}}
In0 == [pr |-> {}, keys |-> <<>>, thr |-> 1, exh |-> FALSE, g |-> "none", env |-> FALSE, sigs |-> {}, junk |-> FALSE, nsig |-> 0]

Init == in = In0 /\ done = FALSE
AddPrincipal ==
    /\ ~done /\ Cardinality(in.pr) < NP
    /\ LET p == PNames[Cardinality(in.pr) + 1] IN
       \E ks \in KeySets : in' = [in EXCEPT !.pr = @ \cup {p}, !.keys = (p :> ks) @@ in.keys]
    /\ UNCHANGED done
Finalize ==
    /\ ~done /\ done' = TRUE
    /\ \E thr \in 0..MaxThr, g \in KeyPool \cup {"kU", "none"}, env \in BOOLEAN, sigs \in SUBSET (KeyPool \cup {"kU"}), junk \in BOOLEAN :
          /\ (~env => sigs = {} /\ ~junk)
          /\ in' = [in EXCEPT !.thr = thr, !.g = g, !.env = env, !.sigs = sigs, !.junk = junk,
                              !.nsig = Cardinality(sigs) + (IF junk THEN 2 ELSE 0)]
Next == AddPrincipal \/ Finalize
Spec == Init /\ [][Next]_<<in, done>>

Refines == done => IRefinesD(in)

Weight == in.thr * 7 + Cardinality(in.sigs) * 13 + Cardinality(in.pr) * 29 + (IF in.env THEN 3 ELSE 0) + (IF in.junk THEN 5 ELSE 0)
          + Cardinality({p \in in.pr : in.g \in in.keys[p]}) * 11 + Cardinality(UNION {in.keys[p] : p \in in.pr}) * 17
Emit == IF done /\ Weight % EmitMod = EmitRes
        THEN PrintT(ToJson([t |-> "SCN", pr |-> SetToSeq(in.pr), keys |-> [p \in in.pr |-> SetToSeq(in.keys[p])], thr |-> in.thr,
                            exh |-> in.exh, g |-> in.g, env |-> in.env, sigs |-> SetToSeq(in.sigs), junk |-> in.junk, nsig |-> in.nsig]))
        ELSE TRUE
=============================================================================
