----------------------------- MODULE Trace_Trees -----------------------------
(***************************************************************************)
(* Trace validation for C10.  Each line is one scenario of MC_Trees built  *)
(* with concrete odd path names in a real repository: the verdict of the   *)
(* real verifier, and what the real readers / writers of trees returned.   *)
(***************************************************************************)
EXTENDS Trees, Json

CONSTANTS Known, AsBuilt, Judge        \* Judge = "C10": file rules and tree plumbing; "C19": the mergeability prediction for the same commits
TL == ndJsonDeserialize("trace.ndjson")
VARIABLE l

Scn(o) == [commits |-> [i \in 1..Len(o.sc.commits) |-> [par |-> o.sc.commits[i].par, s |-> o.sc.commits[i].s,
                                                        tree |-> [p \in Atoms |-> o.sc.commits[i].tree[p]]]],
           old |-> o.sc.old, new |-> o.sc.new, prot |-> ToSet(o.sc.prot), star |-> o.sc.star,
           cls |-> [p \in Atoms |-> o.cls[p]], lead |-> [p \in Atoms |-> o.lead[p]]]

\* everything observed about one scenario, as the model with deviation set S predicts it
Explains(o, sc, S) ==
    /\ (o.verdict = "ok") = FileRuleI(sc, S)
    /\ \A i \in NewCommits(sc) :
         LET C == Changed(sc.commits, i) IN ViewOK(C, AlteredByDiff(sc, C, S), ToSet(o.changed[i].seen), Len(o.changed[i].junk))
    /\ LET P == Present(sc.commits[sc.new].tree) n == sc.new IN
         /\ ViewOK(P, AlteredByList(sc, P, S), ToSet(o.listed[n].seen), Len(o.listed[n].junk))
         /\ ViewOK(P, AlteredByList(sc, P, S), ToSet(o.entries[n].seen), Len(o.entries[n].junk))
         /\ o.rewrite[n] \in RewriteI(sc, sc.commits[n].tree, S)
         /\ o.lookup[n] \in LookupI(sc, sc.commits[n].tree, S)

\* divergences that do not touch the property: the verifier is stricter than required, or a reader returns extra verbatim paths
Harmless(o, sc) ==
    /\ (o.verdict = "ok") => FileRuleOK(sc)
    /\ \A i \in NewCommits(sc) : Changed(sc.commits, i) \subseteq ToSet(o.changed[i].seen) /\ o.changed[i].junk = <<>>
    /\ LET P == Present(sc.commits[sc.new].tree) n == sc.new IN
         /\ P \subseteq ToSet(o.listed[n].seen) /\ o.listed[n].junk = <<>>
         /\ P \subseteq ToSet(o.entries[n].seen) /\ o.entries[n].junk = <<>>
         /\ o.rewrite[n] = "same" /\ o.lookup[n] = "ok"

\* C19 on this family: the prediction made before the commits were recorded agrees with verification once they are recorded
ClassifyMerge(o) ==
    IF (o.mergeable = "ok") = (o.verdict = "ok") THEN [cls |-> "conform"]
    ELSE [cls |-> "violation", why |-> "mergeability predicted " \o o.mergeable \o " but the recorded merge verifies as " \o o.verdict]

Classify(o) ==
    LET sc == Scn(o) IN
    IF Judge = "C19" THEN ClassifyMerge(o)
    ELSE IF Explains(o, sc, {}) THEN [cls |-> "conform"]
    ELSE LET Ss == {S \in SUBSET AsBuilt : S # {} /\ Explains(o, sc, S)} IN
         IF Ss # {} THEN [cls |-> "known", dev |-> CHOOSE S \in Ss : \A T \in Ss : Cardinality(S) <= Cardinality(T)]
         ELSE IF Harmless(o, sc) THEN [cls |-> "safe", why |-> "stricter than required"]
         ELSE [cls |-> "violation", why |-> "no combination of the modelled deviations explains the observation"]

Init == l = 1
Next == /\ l <= Len(TL)
        /\ PrintT(ToJson([t |-> "CLS", id |-> TL[l].id, r |-> Classify(TL[l])]))
        /\ l' = l + 1
Spec == Init /\ [][Next]_l
=============================================================================
