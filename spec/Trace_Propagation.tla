-------------------------- MODULE Trace_Propagation --------------------------
(***************************************************************************)
(* Trace validation for C18.  Each line is one action sequence of          *)
(* MC_Propagation replayed on a pair of real repositories (upstream and    *)
(* downstream) with concrete, partly odd, path names; after every action   *)
(* the downstream reference's tree (path, blob, mode), its number of       *)
(* commits and its propagation entries were read back with NUL-delimited   *)
(* git plumbing.                                                           *)
(***************************************************************************)
EXTENDS Propagation, Json

CONSTANTS Known, AsBuilt
TL == ndJsonDeserialize("trace.ndjson")
VARIABLE l

TreeOf(es) == {[p |-> es[i].p, b |-> es[i].b, m |-> es[i].m] : i \in DOMAIN es}
DirOf(d) == [up |-> d.up, down |-> d.down]

StepT(s, a, n, S) ==
    CASE a.a = "upcommit" -> [s EXCEPT !.up = Append(@, [tree |-> TreeOf(a.tree), skipped |-> FALSE])]
      [] a.a = "upskip"   -> IF s.up = <<>> THEN s ELSE [s EXCEPT !.up[Len(s.up)].skipped = TRUE]
      [] a.a = "downedit" -> IF a.what = "keep"
                             THEN [s EXCEPT !.down.tree = (@ \ {e \in @ : e.p = <<"keep">>}) \cup {[p |-> <<"keep">>, b |-> 20 + s.down.commits, m |-> "f"]},
                                            !.down.commits = @ + 1]
                             ELSE [s EXCEPT !.down.tree = (@ \ {e \in @ : e.p = <<"v", "local">>}) \cup {[p |-> <<"v", "local">>, b |-> 30, m |-> "f"]},
                                            !.down.commits = @ + 1]
      [] a.a = "propagate" -> After(s, [i \in DOMAIN a.dirs |-> DirOf(a.dirs[i])], S)

\* does the observation after an action agree with the model world?
Agrees(o, s, a, before, S) ==
    /\ o.junk = <<>>
    /\ TreeOf(o.tree) = s.down.tree
    /\ o.commits = s.down.commits
    /\ Len(o.log) = Len(s.down.log)
    /\ \A i \in DOMAIN o.log : o.log[i].upidx = s.down.log[i].upidx /\ o.log[i].targetok /\ o.log[i].locok /\ o.log[i].refok
    /\ (a.a = "propagate" => LET rs == RunDirs(before, [i \in DOMAIN a.dirs |-> DirOf(a.dirs[i])], S) IN
                               (o.err # "") = (rs # <<>> /\ rs[Len(rs)].res = "error"))

RECURSIVE Replay(_, _, _, _, _)
Replay(s, acts, obs, k, S) ==
    IF k > Len(acts) THEN TRUE
    ELSE LET s2 == StepT(s, acts[k], k, S) IN Agrees(obs[k], s2, acts[k], s, S) /\ Replay(s2, acts, obs, k + 1, S)

World0(x) == [up |-> <<>>, down |-> [tree |-> TreeOf(x.scn.init), commits |-> 1, log |-> <<>>]]

Classify(x) ==
    IF x.err # "" THEN [cls |-> "infra", why |-> x.err]
    ELSE IF Replay(World0(x), x.scn.acts, x.obs, 1, {}) THEN [cls |-> "conform"]
    ELSE LET Ss == {S \in SUBSET AsBuilt : S # {} /\ Replay(World0(x), x.scn.acts, x.obs, 1, S)} IN
         IF Ss # {} THEN [cls |-> "known", dev |-> CHOOSE S \in Ss : \A T \in Ss : Cardinality(S) <= Cardinality(T)]
         ELSE [cls |-> "violation", why |-> "no combination of the modelled deviations explains what the downstream repository holds"]

Init == l = 1
Next == /\ l <= Len(TL)
        /\ PrintT(ToJson([t |-> "CLS", id |-> TL[l].id, r |-> Classify(TL[l])]))
        /\ l' = l + 1
Spec == Init /\ [][Next]_l
=============================================================================
