------------------------- MODULE Trace_EntryCodec -------------------------
(***************************************************************************)
(* Trace validation for the RSL entry codec (C14).  A line is one text     *)
(* given to rsl.ParseEntryText -- rendered from a TLC token text, read     *)
(* back after recording an entry through the real writers, or a fuzzed     *)
(* byte string projected to tokens by the harness lexer -- with the parsed *)
(* fields, and (when accepted) the canonical text the real writers produce *)
(* for the parsed entry together with its parse.                           *)
(***************************************************************************)
EXTENDS EntryCodec, Json

TL == ndJsonDeserialize("trace.ndjson")
VARIABLE l

Zero == [acc |-> FALSE, kind |-> "", ref |-> 0, tid |-> 0, num |-> 0, eids |-> <<>>, skip |-> 0, upr |-> 0, upe |-> 0]
Norm(p) ==
    IF ~p.acc THEN Zero
    ELSE CASE p.kind = "ref"  -> [Zero EXCEPT !.acc = TRUE, !.kind = "ref", !.ref = p.ref, !.tid = p.tid, !.num = p.num]
           [] p.kind = "prop" -> [Zero EXCEPT !.acc = TRUE, !.kind = "prop", !.ref = p.ref, !.tid = p.tid, !.num = p.num,
                                              !.upr = p.upr, !.upe = p.upe]
           [] p.kind = "ann"  -> [Zero EXCEPT !.acc = TRUE, !.kind = "ann", !.eids = p.eids, !.skip = p.skip, !.num = p.num]
Strip(o) == [acc |-> o.acc, kind |-> IF o.acc THEN o.kind ELSE "", ref |-> o.ref, tid |-> o.tid, num |-> o.num,
             eids |-> o.eids, skip |-> o.skip, upr |-> o.upr, upe |-> o.upe]
Text(t) == [hdr |-> t.hdr, sep |-> t.sep, body |-> t.body]

Classify(line) ==
    LET o    == Strip(line.obs)
        expI == Norm(ParseI(Text(line.t)))
        expD == Norm(ParseD(Text(line.t)))
    IN IF line.obs.panic \/ (line.has2 /\ line.obs2.panic) THEN [cls |-> "violation", why |-> "parser panicked"]
       ELSE IF line.mode = "record" /\ line.t.hdr = "none" /\ ~line.obs.acc THEN [cls |-> "safe", why |-> "entry could not be recorded"]
       ELSE IF o # expD THEN [cls |-> "violation", why |-> "parsed fields differ from the once-in-order definition"]
       ELSE IF line.has2 /\ Strip(line.obs2) # o THEN [cls |-> "violation", why |-> "canonical text parses to a different entry"]
       ELSE IF line.has2 /\ line.obs2.msg # line.obs.msg THEN [cls |-> "violation", why |-> "canonical text changes the message"]
       ELSE IF line.mode = "record" /\ (o # Strip(line.e) \/ line.obs.msg # line.msg0)
            THEN [cls |-> "violation", why |-> "recorded entry reads back differently"]
       ELSE IF o # expI THEN [cls |-> "safe", why |-> "differs from Layer I"]
       ELSE IF line.mode = "record" /\ Text(line.t) # Ser(Strip(line.e), line.msg0 # "") /\ line.msg0 = ""
            THEN [cls |-> "safe", why |-> "serialiser differs from the model"]
       ELSE [cls |-> "conform"]

Init == l = 1
Next == /\ l <= Len(TL)
        /\ LET c == Classify(TL[l]) IN
           PrintT(ToJson([t |-> "CLS", id |-> TL[l].id, mode |-> TL[l].mode, cls |-> c.cls,
                          acc |-> TL[l].obs.acc, kind |-> TL[l].t.hdr,
                          why |-> IF c.cls = "conform" THEN "" ELSE c.why]))
        /\ l' = l + 1
Spec == Init /\ [][Next]_l
=============================================================================
