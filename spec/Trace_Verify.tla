---------------------------- MODULE Trace_Verify ----------------------------
(***************************************************************************)
(* Trace validation for the verifier (C01, C07, C11).  A line is one       *)
(* abstract log concretised into a real repository (real signed policy     *)
(* metadata, SSH-signed RSL entries and commits, real authorization        *)
(* attestations) and the verdict VerifyRefFull returned for each reference *)
(* (for C11 also on the twin repository whose policies lack global rules). *)
(***************************************************************************)
EXTENDS Verify, Json

CONSTANTS Known, AsBuilt, Prop        \* Prop \in {"C01", "C07", "C11"}
TL == ndJsonDeserialize("trace.ndjson")
PolTab == ndJsonDeserialize("pol.ndjson")[1].pol
VARIABLE l

ToS(seq) == {seq[x] : x \in DOMAIN seq}
TracePol == [v \in DOMAIN PolTab |->
                [rules |-> [r \in DOMAIN PolTab[v].rules |-> [n \in DOMAIN PolTab[v].rules[r] |->
                                [pr |-> ToS(PolTab[v].rules[r][n].pr), thr |-> PolTab[v].rules[r][n].thr]]],
                 gthr |-> {[refs |-> ToS(x.refs), thr |-> x.thr] : x \in ToS(PolTab[v].gthr)},
                 bfp |-> ToS(PolTab[v].bfp), all |-> ToS(PolTab[v].all)]]

E(e) == CASE e.k = "ann" -> [k |-> "ann", tg |-> ToS(e.tg), s |-> e.s]
          [] e.k = "att" -> [k |-> "att", apps |-> {[ref |-> a.ref, from |-> a.from, tree |-> a.tree, by |-> ToS(a.by)] : a \in ToS(e.apps)}]
          [] e.k = "pol" -> [k |-> "pol", v |-> e.v]
          [] e.k = "stg" -> [k |-> "stg"]
          [] OTHER -> [k |-> e.k, ref |-> e.ref, s |-> e.s, tree |-> e.tree, par |-> e.par]
Log(scn) == [i \in DOMAIN scn.log |-> E(scn.log[i])]

DV(lg, r) == IF Prop = "C07" THEN DVerdictC07(lg, r) ELSE DVerdictC01(lg, r)

\* observation for ref r: [res, tip]
TipOK(lg, r, o) == o.res # "ok" \/ o.tip = LatestFor(lg, r)

ClassifyRef(lg, r, o, twin) ==
    LET v == OkOrFail(o.res) d == DV(lg, r) IN
    IF o.res \in {"panic"} THEN [cls |-> "violation", why |-> "panic"]
    ELSE IF v = d /\ TipOK(lg, r, o) /\ (Prop = "C11" /\ v = "ok" => OkOrFail(twin.res) = "ok")
    THEN IF o.res \in {Impl(lg, r, AsBuilt), Impl(lg, r, {})} THEN [cls |-> "conform"] ELSE [cls |-> "safe", why |-> "error class differs from the model"]
    ELSE LET S == {x \in SUBSET AsBuilt : x \cap Known # {} /\ OkOrFail(Impl(lg, r, x)) = v} IN
         IF v = "ok" /\ d = "fail" /\ S # {} /\ TipOK(lg, r, o)
         THEN [cls |-> "known", dev |-> CHOOSE x \in S : \A y \in S : Cardinality(x) <= Cardinality(y)]
         ELSE IF ~TipOK(lg, r, o) THEN [cls |-> "violation", why |-> "reported tip is not the target of the latest entry"]
         ELSE IF v = "ok" THEN [cls |-> "violation", why |-> "accepted a history the policy in force does not authorise"]
         ELSE IF v = d THEN [cls |-> "violation", why |-> "accepted with global rules, rejected without them"]
         ELSE [cls |-> "violation", why |-> "rejected a history in which every unrevoked entry is authorised"]

None == [res |-> "none", tip |-> 0]
Classify(line) ==
    LET lg == Log(line.scn) IN
    [r \in DOMAIN line.obs.full |->
        ClassifyRef(lg, r, line.obs.full[r], IF "twin" \in DOMAIN line.obs /\ r \in DOMAIN line.obs.twin THEN line.obs.twin[r] ELSE None)]

Init == l = 1
Next == /\ l <= Len(TL)
        /\ PrintT(ToJson([t |-> "CLS", id |-> TL[l].id, err |-> TL[l].err,
                          r |-> IF TL[l].err # "" THEN <<>> ELSE Classify(TL[l]),
                          nt |-> (TL[l].err = "" /\ \E r \in DOMAIN TL[l].obs.full : TL[l].obs.full[r].res \notin {"none", "nopolicy"})]))
        /\ l' = l + 1
Spec == Init /\ [][Next]_l
=============================================================================
