---------------------------- MODULE Trace_Verify ----------------------------
(***************************************************************************)
(* Trace validation for the verifier (C01, C07, C11).  A line is one       *)
(* abstract log concretised into a real repository (real signed policy     *)
(* metadata, SSH-signed RSL entries and commits, real authorization        *)
(* attestations) and the verdict VerifyRefFull returned for each reference *)
(* (for C11 also on the twin repository whose policies lack global rules). *)
(***************************************************************************)
EXTENDS Verify, Json

CONSTANTS Known, AsBuilt, Prop        \* Prop \in {"C01", "C07", "C11"}
TL == ndJsonDeserialize("trace.ndjson")
PolTab == ndJsonDeserialize("pol.ndjson")[1].pol
VARIABLE l

ToS(seq) == {seq[x] : x \in DOMAIN seq}
TracePol == [v \in DOMAIN PolTab |->
                [rules |-> [r \in DOMAIN PolTab[v].rules |-> [n \in DOMAIN PolTab[v].rules[r] |->
                                [pr |-> ToS(PolTab[v].rules[r][n].pr), thr |-> PolTab[v].rules[r][n].thr]]],
                 gthr |-> {[refs |-> ToS(x.refs), thr |-> x.thr] : x \in ToS(PolTab[v].gthr) \cup ToS(PolTab[v].cgthr)},
                 bfp |-> ToS(PolTab[v].bfp), all |-> ToS(PolTab[v].all), apps |-> PolTab[v].apps]]

E(e) == CASE e.k = "ann" -> [k |-> "ann", tg |-> ToS(e.tg), s |-> e.s]
          [] e.k = "att" -> [k |-> "att", apps |-> {[ref |-> a.ref, from |-> a.from, tree |-> a.tree, sref |-> a.sref, sfrom |-> a.sfrom,
                                                   stree |-> a.stree, by |-> ToS(a.by)] : a \in ToS(e.apps)},
                               crs |-> {[ref |-> a.ref, from |-> a.from, tree |-> a.tree, sref |-> a.sref, sfrom |-> a.sfrom, stree |-> a.stree,
                                         app |-> a.app, signer |-> a.signer, approvers |-> ToS(a.approvers), dismissed |-> ToS(a.dismissed)] : a \in ToS(e.crs)}]
          [] e.k = "pol" -> [k |-> "pol", v |-> e.v, cv |-> e.cv, sv |-> e.sv]
          [] e.k = "stg" -> [k |-> "stg"]
          [] OTHER -> [k |-> e.k, ref |-> e.ref, s |-> e.s, tree |-> e.tree, par |-> e.par]
Log(scn) == [i \in DOMAIN scn.log |-> E(scn.log[i])]

DV(lg, r, up) == IF Prop = "C07" THEN DVerdictC07(lg, r, up) ELSE DVerdictC01(lg, r, up)

\* observation for ref r: [res, tip]
TipOK(lg, r, o) == o.res # "ok" \/ o.tip = LatestFor(lg, r)

\* generic judgement of one observation o against documented verdict d and the model's results under deviation sets
Judge(lg, r, o, dlo, d, implOf(_), twinOK) ==       \* dlo / d: lower / upper bound of the documented verdict
    LET v == OkOrFail(o.res) IN
    IF o.res \in {"panic"} THEN [cls |-> "violation", why |-> "panic"]
    ELSE IF Prop = "C02" /\ ~(v = "ok" /\ ~PoliciesOK(lg, LatestFor(lg, r)))
    THEN \* C02 only concerns the policy entries a verification depends on; authorisation questions are C01's
         IF o.res \in {implOf(AsBuilt), implOf({})} THEN [cls |-> "conform"] ELSE [cls |-> "safe", why |-> "differs from the model (not a policy-chain matter)"]
    ELSE IF Between(v, dlo, d) /\ TipOK(lg, r, o) /\ twinOK
    THEN IF o.res \in {implOf(AsBuilt), implOf({})} THEN [cls |-> "conform"] ELSE [cls |-> "safe", why |-> "error class differs from the model"]
    ELSE LET S == {x \in SUBSET AsBuilt : x \cap Known # {} /\ OkOrFail(implOf(x)) = v} IN
         IF v = "ok" /\ d = "fail" /\ S # {} /\ TipOK(lg, r, o)
         THEN [cls |-> "known", dev |-> CHOOSE x \in S : \A y \in S : Cardinality(x) <= Cardinality(y)]
         ELSE IF ~TipOK(lg, r, o) THEN [cls |-> "violation", why |-> "reported tip is not the target of the latest entry"]
         ELSE IF Prop = "C02" THEN [cls |-> "violation", why |-> "accepted although a policy entry it depends on breaks the chain of trust or is not self-valid"]
         ELSE IF v = "ok" /\ d = "fail" THEN [cls |-> "violation", why |-> "accepted a history the policy in force does not authorise"]
         ELSE IF Between(v, dlo, d) THEN [cls |-> "violation", why |-> "accepted with global rules, rejected without them"]
         ELSE [cls |-> "violation", why |-> "rejected a history in which every unrevoked entry is authorised"]

ClassifyRef(lg, r, o, twin) ==
    Judge(lg, r, o, DV(lg, r, FALSE), DV(lg, r, TRUE), LAMBDA x : Impl(lg, r, x), (Prop = "C11" /\ OkOrFail(o.res) = "ok") => OkOrFail(twin.res) = "ok")

\* C02: latest-only and from-entry modes
ClassifyLatest(lg, r, o) == Judge(lg, r, o, DVerdictLatest(lg, r, FALSE), DVerdictLatest(lg, r, TRUE), LAMBDA x : ImplLatest(lg, r, x), TRUE)
ClassifyFrom(lg, r, i, o) == Judge(lg, r, o, DVerdictFrom(lg, r, i, FALSE), DVerdictFrom(lg, r, i, TRUE), LAMBDA x : ImplFrom(lg, r, i, x), TRUE)
\* mode agreement: full accepts => latest-only accepts
Agree(full, latest) == OkOrFail(full.res) = "ok" => OkOrFail(latest.res) = "ok"

None == [res |-> "none", tip |-> 0]
\* C19: the mergeability answer and what verification said for every recorder
C19Side(lg) == HasEntries(lg, "main") /\ LatestUnskippedFor(lg, "main") = LatestFor(lg, "main")
ClassifyMerge(lg, tree, m) ==
    IF ~C19Side(lg) THEN [cls |-> "conform"]                       \* outside the statement's side conditions
    ELSE IF m.answer \in {"panic", "error"} THEN [cls |-> "violation", why |-> m.answer]
    ELSE LET ExplainedBy(d) == /\ m.answer = MergePredictI(lg, "main", tree, d)
                               /\ \A s \in Recorders : m.verifies[s] = MergeVerifies(lg, "main", tree, s, d) IN
         IF MergeAgrees(lg, "main", tree, m.answer, LAMBDA s : m.verifies[s])
         THEN IF ExplainedBy(AsBuilt) \/ ExplainedBy({}) THEN [cls |-> "conform"] ELSE [cls |-> "safe", why |-> "differs from the model"]
         ELSE LET S == {x \in SUBSET AsBuilt : x \cap Known # {} /\ ExplainedBy(x)} IN
              IF S # {} THEN [cls |-> "known", dev |-> CHOOSE x \in S : \A y \in S : Cardinality(x) <= Cardinality(y)]
              ELSE [cls |-> "violation", why |-> "mergeability answer disagrees with verification of the recorded merge"]
Worst(set) == IF \E x \in set : x.cls = "violation" THEN CHOOSE x \in set : x.cls = "violation"
              ELSE IF \E x \in set : x.cls = "known" THEN CHOOSE x \in set : x.cls = "known"
              ELSE IF \E x \in set : x.cls = "safe" THEN CHOOSE x \in set : x.cls = "safe"
              ELSE [cls |-> "conform"]

StrToNat(str) == CHOOSE n \in 1..99 : ToString(n) = str
Classify(line) ==
    LET lg == Log(line.scn) IN
    IF Prop = "C19" THEN
        [r \in {"main"} |-> IF "merge" \in DOMAIN line.obs
                            THEN Worst({ClassifyMerge(lg, StrToNat(t), line.obs.merge[t]) : t \in DOMAIN line.obs.merge})
                            ELSE [cls |-> "conform"]]
    ELSE
    [r \in DOMAIN line.obs.full |->
        LET full == ClassifyRef(lg, r, line.obs.full[r], IF "twin" \in DOMAIN line.obs /\ r \in DOMAIN line.obs.twin THEN line.obs.twin[r] ELSE None) IN
        IF Prop # "C02" \/ r \notin DOMAIN line.obs.latest THEN full
        ELSE LET lat == ClassifyLatest(lg, r, line.obs.latest[r])
                 frs == [p \in DOMAIN line.obs.from[r] |-> ClassifyFrom(lg, r, StrToNat(p), line.obs.from[r][p])]
                 all == {full, lat} \cup {frs[p] : p \in DOMAIN frs}
                 bad == {x \in all : x.cls = "violation"}
                 kn  == {x \in all : x.cls = "known"}
                 sf  == {x \in all : x.cls = "safe"}
             IN \* (mode agreement follows from the per-mode verdicts: it is a theorem of Layer D, checked in MC_Verify)
                IF bad # {} THEN CHOOSE x \in bad : TRUE
                ELSE IF kn # {} THEN CHOOSE x \in kn : TRUE
                ELSE IF sf # {} THEN CHOOSE x \in sf : TRUE
                ELSE [cls |-> "conform"]]

Init == l = 1
Next == /\ l <= Len(TL)
        /\ PrintT(ToJson([t |-> "CLS", id |-> TL[l].id, err |-> TL[l].err,
                          r |-> IF TL[l].err # "" THEN <<>> ELSE Classify(TL[l]),
                          nt |-> (TL[l].err = "" /\ \E r \in DOMAIN TL[l].obs.full : TL[l].obs.full[r].res \notin {"none", "nopolicy"})]))
        /\ l' = l + 1
Spec == Init /\ [][Next]_l
=============================================================================
