--------------------------- MODULE Trace_Metadata ---------------------------
(***************************************************************************)
(* Trace validation for C13: a line is one sequence of metadata edits run  *)
(* on a real tufv01 / tufv02 rule file or root, with -- after every edit   *)
(* -- whether the mutator accepted and three projections obtained through  *)
(* the query interface: of the live object, of the object after a          *)
(* Marshal / Unmarshal round trip, and (v01) of the object migrated to the *)
(* current schema.                                                         *)
(***************************************************************************)
EXTENDS Metadata, Json

CONSTANTS Known, AsBuilt
TL == ndJsonDeserialize("trace.ndjson")
VARIABLE l

PF(o) == [pr |-> ToSet(o.pr), rules |-> [i \in DOMAIN o.rules |-> [name |-> o.rules[i].name, pr |-> ToSet(o.rules[i].pr), thr |-> o.rules[i].thr]]]
PR(o) == [pr |-> ToSet(o.pr), root |-> [ids |-> ToSet(o.rootIds), thr |-> o.rootThr],
          tgt |-> [on |-> o.tgtOn, ids |-> ToSet(o.tgtIds), thr |-> o.tgtThr],
          globals |-> [i \in DOMAIN o.globals |-> [name |-> o.globals[i].name, kind |-> o.globals[i].kind,
                                                  thr |-> IF o.globals[i].kind = "threshold" THEN o.globals[i].thr ELSE 0]],
          hooks |-> [pre |-> o.pre, push |-> o.push], multi |-> [ctl |-> o.ctl, cr |-> o.cr, nr |-> o.nr],
          pd |-> [i \in DOMAIN o.pd |-> [name |-> o.pd[i].name, spec |-> o.pd[i].spec]]]
NormG(r) == [r EXCEPT !.globals = [i \in DOMAIN r.globals |-> [r.globals[i] EXCEPT !.thr = IF r.globals[i].kind = "threshold" THEN @ ELSE 0]]]

\* edits as the model's records
EF(e) == CASE e.op \in {"AddRule", "UpdateRule"} -> [op |-> e.op, name |-> e.name, prl |-> e.prl, thr |-> e.thr]
           [] e.op = "RemoveRule" -> [op |-> e.op, name |-> e.name]
           [] e.op = "ReorderRules" -> [op |-> e.op, names |-> e.names]
           [] OTHER -> [op |-> e.op, p |-> e.p]
ER(e) == CASE e.op \in {"AddGlobalRule", "UpdateGlobalRule"} -> [op |-> e.op, name |-> e.name, kind |-> e.kind, thr |-> e.thr]
           [] e.op = "DeleteGlobalRule" -> [op |-> e.op, name |-> e.name]
           [] e.op \in {"AddHook", "RemoveHook"} -> [op |-> e.op, stages |-> e.stages, name |-> e.name]
           [] e.op \in {"UpdateRootThreshold", "UpdatePrimaryRuleFileThreshold"} -> [op |-> e.op, thr |-> e.thr]
           [] e.op \in {"EnableController", "DisableController"} -> [op |-> e.op]
           [] e.op \in {"AddControllerRepository", "AddNetworkRepository", "DeletePropagationDirective"} -> [op |-> e.op, name |-> e.name]
           [] e.op \in {"AddPropagationDirective", "UpdatePropagationDirective"} -> [op |-> e.op, name |-> e.name, spec |-> e.spec]
           [] OTHER -> [op |-> e.op, p |-> e.p]

NoErr(st) == "err" \notin DOMAIN st.file /\ "err" \notin DOMAIN st.fileRT /\ "err" \notin DOMAIN st.fileMG
             /\ "err" \notin DOMAIN st.root /\ "err" \notin DOMAIN st.rootRT /\ "err" \notin DOMAIN st.rootMG

\* Layer D on the observed sequence: prev = projection before the step
DStepFile(prev, st) == /\ NoErr(st)
                       /\ (st.ok => WFFile(PF(st.file)))
                       /\ (~st.ok => PF(st.file) = prev)
                       /\ PF(st.fileRT) = PF(st.file) /\ PF(st.fileMG) = PF(st.file)
DStepRoot(prev, st) == /\ NoErr(st)
                       /\ (st.ok => WFRoot(PR(st.root) @@ [hinit |-> TRUE]))
                       /\ (~st.ok => PR(st.root) = prev)
                       /\ PR(st.rootRT) = PR(st.root) /\ PR(st.rootMG) = PR(st.root)

InitF == [pr |-> {}, rules |-> <<Allow>>]
InitR == ViewR(NewRoot("p1"))

RECURSIVE DAllFile(_, _)
DAllFile(prev, steps) == steps = <<>> \/ (DStepFile(prev, Head(steps)) /\ DAllFile(PF(Head(steps).file), Tail(steps)))
RECURSIVE DAllRoot(_, _)
DAllRoot(prev, steps) == steps = <<>> \/ (DStepRoot(prev, Head(steps)) /\ DAllRoot(PR(Head(steps).root), Tail(steps)))

\* conformance with Layer I under deviation set d
Explains(line, d) ==
    IF line.scn.which = "file"
    THEN LET run == RunF(NewFile, [i \in DOMAIN line.scn.edits |-> EF(line.scn.edits[i])], line.scn.v01, d) IN
         \A i \in DOMAIN run : run[i].ok = line.steps[i].ok /\ ViewF(run[i].m) = PF(line.steps[i].file)
    ELSE LET run == RunR(NewRoot("p1"), [i \in DOMAIN line.scn.edits |-> ER(line.scn.edits[i])], d) IN
         \A i \in DOMAIN run : run[i].ok = line.steps[i].ok /\ NormG(ViewR(run[i].m)) = PR(line.steps[i].root)

DOK(line) == IF line.scn.which = "file" THEN DAllFile(InitF, line.steps) ELSE DAllRoot(InitR, line.steps)

Classify(line) ==
    IF DOK(line) THEN (IF Explains(line, AsBuilt) \/ Explains(line, {}) THEN [cls |-> "conform"] ELSE [cls |-> "safe", why |-> "differs from the model"])
    ELSE LET S == {d \in SUBSET AsBuilt : d \cap Known # {} /\ Explains(line, d)} IN
         IF S # {} THEN [cls |-> "known", dev |-> CHOOSE d \in S : \A d2 \in S : Cardinality(d) <= Cardinality(d2)]
         ELSE [cls |-> "violation", why |-> "metadata not well formed after an accepted edit, changed by a refused edit, or answers differ after reload / migration"]

Init == l = 1
Next == /\ l <= Len(TL)
        /\ PrintT(ToJson([t |-> "CLS", id |-> TL[l].id, r |-> Classify(TL[l]), n |-> Len(TL[l].steps)]))
        /\ l' = l + 1
Spec == Init /\ [][Next]_l
=============================================================================
