---------------------------- MODULE Trace_Faults ----------------------------
(***************************************************************************)
(* Trace validation for C16: each line is one run of a real mutating       *)
(* operation on a prepared repository with the k-th storage call failing   *)
(* (fault) or the operation abandoned right after the k-th call (crash),   *)
(* with the abstract state before, after, after a retry, and after an      *)
(* uninterrupted run -- all re-read through a fresh handle by the          *)
(* independent walker.                                                     *)
(***************************************************************************)
EXTENDS Faults, Json

CONSTANTS Known, AsBuilt
TL == ndJsonDeserialize("trace.ndjson")
VARIABLE l

PS(o) == [chain |-> [i \in DOMAIN o.chain |-> <<o.chain[i].k, o.chain[i].ref, o.chain[i].num>>],
          st |-> [r \in Managed |-> o.st[r]]]
SingleParents(o) == \A i \in DOMAIN o.chain : o.chain[i].np <= 1

Budget(line) == IF line.kind = "crash" THEN line.call.mutsBefore + (IF line.call.isMut THEN 1 ELSE 0)
                ELSE line.call.mutsBefore

Pred(line, d) == Run(line.op, Start(line.start), IF line.kind = "clean" THEN 99 ELSE Budget(line), line.kind = "crash", d)

Explains(line, d) ==
    IF line.kind = "fault" /\ ~line.err
    THEN \* the failing call's error is tolerated by the operation (e.g. the optional persistent cache)
         Proj(Run(line.op, Start(line.start), 99, FALSE, d).s) = PS(line.post)
    ELSE LET p == Pred(line, d) IN
         /\ Proj(p.s) = PS(line.post)
         /\ (line.kind = "crash" \/ p.err = line.err)

DOK(line) ==
    LET pre == PS(line.pre) post == PS(line.post) clean == PS(line.clean) IN
    /\ SingleParents(line.post)
    /\ CASE line.kind = "clean" -> ~line.err /\ \A r \in Managed : post.st[r] \in {0, 1}
         [] line.kind = "crash" -> CrashOK(pre, post, clean)
         [] line.kind = "fault" -> FaultOK(pre, post, [r \in Managed |-> line.post.id[r] = line.pre.id[r]],
                                           line.err, line.retryErr, PS(line.retry), clean)

Classify(line) ==
    IF DOK(line)
    THEN IF Explains(line, AsBuilt) \/ Explains(line, {}) THEN [cls |-> "conform"] ELSE [cls |-> "safe", why |-> "state differs from the model's"]
    ELSE LET S == {d \in SUBSET AsBuilt : d \cap Known # {} /\ Explains(line, d)} IN
         IF S # {} THEN [cls |-> "known", dev |-> CHOOSE d \in S : \A d2 \in S : Cardinality(d) <= Cardinality(d2)]
         ELSE [cls |-> "violation", why |-> "post-fault state breaks the C16 conditions"]

Init == l = 1
Next == /\ l <= Len(TL)
        /\ PrintT(ToJson([t |-> "CLS", id |-> TL[l].id, r |-> Classify(TL[l]), kind |-> TL[l].kind,
                          nontrivial |-> (TL[l].call.mutsBefore > 0 \/ TL[l].call.isMut)]))
        /\ l' = l + 1
Spec == Init /\ [][Next]_l
=============================================================================
