SPECIFICATION Spec
CONSTANTS
  Mode = "conc2"
  MaxSeq = 3
  EmitOn = FALSE
  Dev = {}
INVARIANT Inv
INVARIANT SeqBranch
PROPERTY AppendOnly
VIEW View
CONSTRAINT Emit
CHECK_DEADLOCK FALSE
