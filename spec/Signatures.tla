----------------------------- MODULE Signatures -----------------------------
(***************************************************************************)
(* Threshold counting of SignatureVerifier.Verify (internal/policy/        *)
(* signature.go) -- C05.                                                   *)
(*                                                                         *)
(* Input in:                                                               *)
(*   pr    set of principals the rule trusts                               *)
(*   keys  keys[p]: set of keys of principal p (sharing allowed)           *)
(*   thr   threshold (Int)                                                 *)
(*   exh   verifyExhaustively flag                                         *)
(*   g     key that made the Git object's signature, "kU" (a key outside   *)
(*         the rule) or "none" (unsigned / no object presented)            *)
(*   env   FALSE: no envelope presented                                    *)
(*   sigs  set of keys with a VALID signature over the envelope payload    *)
(*         (may contain "kU")                                              *)
(*   junk  TRUE: the envelope additionally carries signatures that must    *)
(*         never count: lifted from another payload, duplicated, by keys   *)
(*         outside the rule                                                *)
(*   nsig  number of signature blocks in the envelope (0 is an error case) *)
(*                                                                         *)
(* Layer I: VerifyImpl(in, order, korder) -- as coded; `order` is the      *)
(* iteration order of the principals and korder[p] of a principal's keys   *)
(* (both come from Go map iteration, hence existentially quantified).      *)
(* Layer D: CountOK / Exact / Never.                                       *)
(***************************************************************************)
EXTENDS Integers, Sequences, FiniteSets, SequencesExt, FiniteSetsExt, TLC

Ok(c)    == [res |-> "ok", pr |-> c]
Unmet(c) == [res |-> "unmet", pr |-> c]
Invalid  == [res |-> "invalid", pr |-> {}]
OtherErr == [res |-> "error", pr |-> {}]

Perms(S) == {f \in [1..Cardinality(S) -> S] : \A i, j \in 1..Cardinality(S) : i # j => f[i] # f[j]}

\* ---- Layer I
\* git pass: first principal in order owning a key that verifies the object; at most one credited
GitHit(in, order, korder) ==
    LET hits == {n \in 1..Len(order) : in.g \in in.keys[order[n]]} IN
    IF in.g \in {"none", "kU"} \/ hits = {} THEN [pr |-> {}, ky |-> {}]
    ELSE [pr |-> {order[Min(hits)]}, ky |-> {in.g}]

RECURSIVE EnvPass(_, _, _, _)
EnvPass(in, order, usedP, usedK) ==     \* returns <<usedP, error?>>
    IF order = <<>> THEN <<usedP, FALSE>>
    ELSE LET p == Head(order)
             ver == in.keys[p] \ usedK             \* verifiers built for this principal
             acc == ver \cap in.sigs               \* every accepted key is marked used
         IN IF p \in usedP \/ ver = {} THEN EnvPass(in, Tail(order), usedP, usedK)
            ELSE IF in.nsig = 0 THEN <<usedP, TRUE>>        \* dsse: "no signature" is a hard error
            ELSE IF acc = {} THEN EnvPass(in, Tail(order), usedP, usedK)
            ELSE EnvPass(in, Tail(order), usedP \cup {p}, usedK \cup acc)

VerifyImpl(in, order, korder) ==
    IF in.thr < 1 \/ in.pr = {} THEN Invalid
    ELSE LET gp == GitHit(in, order, korder) IN
         IF ~in.exh /\ in.thr = 1 /\ gp.pr # {} THEN Ok(gp.pr)
         ELSE IF ~in.env THEN (IF in.exh \/ Cardinality(gp.pr) >= in.thr THEN Ok(gp.pr) ELSE Unmet(gp.pr))
         ELSE LET e == EnvPass(in, order, gp.pr, gp.ky) IN
              IF e[2] THEN OtherErr
              ELSE IF in.exh \/ Cardinality(e[1]) >= in.thr THEN Ok(e[1]) ELSE Unmet(e[1])

Outcomes(in) == {VerifyImpl(in, o, <<>>) : o \in Perms(in.pr)}

\* ---- Layer D
AllKeys(in)  == UNION {in.keys[p] : p \in in.pr}
ValidKeys(in) == (IF in.env THEN in.sigs ELSE {}) \cup (IF in.g \in {"none", "kU"} THEN {} ELSE {in.g})
\* principals that contributed a valid signature with one of their keys
Signed(in)   == {p \in in.pr : in.keys[p] \cap ValidKeys(in) # {}}
\* largest number of principals that can each be matched to a DIFFERENT valid key
IsMatching(in, S, f) == /\ \A p \in S : f[p] \in in.keys[p] \cap ValidKeys(in)
                        /\ \A p, q \in S : p # q => f[p] # f[q]
Matchable(in, S) == \E f \in [S -> ValidKeys(in) \cup {"none"}] : IsMatching(in, S, f)
MaxMatching(in)  == Max({Cardinality(S) : S \in {T \in SUBSET Signed(in) : Matchable(in, T)}})
KeysDisjoint(in) == \A p, q \in in.pr : p # q => in.keys[p] \cap in.keys[q] = {}
GitOwners(in)    == {p \in in.pr : in.g \in in.keys[p]}

\* what the statement demands of an observed result r = [res, pr]
CountOK(in, r) ==
    /\ (in.thr < 1 \/ in.pr = {}) => r.res \notin {"ok"}                         \* never satisfied
    /\ r.res \in {"ok", "unmet"} =>
         /\ r.pr \subseteq Signed(in)                                            \* only trusted principals with a valid signature
         /\ Cardinality(r.pr) <= MaxMatching(in)                                 \* each with a different key
         /\ Cardinality(r.pr \cap (GitOwners(in) \ {p \in in.pr : in.keys[p] \cap (IF in.env THEN in.sigs ELSE {}) # {}})) <= 1
                                                                                 \* at most one credited for the Git signature alone
    /\ (r.res = "ok" /\ ~in.exh) => Cardinality(r.pr) >= in.thr                  \* satisfied only with threshold many
    /\ (KeysDisjoint(in) /\ in.thr >= 1 /\ in.pr # {} /\ ~in.exh /\ (in.env => in.nsig > 0)) =>
         \* exact when no keys are shared: satisfied iff enough of them signed
         ((r.res = "ok") <=> Cardinality(Signed(in)) >= in.thr)

IRefinesD(in) == \A r \in Outcomes(in) : CountOK(in, r)
=============================================================================
