--------------------------- MODULE MC_Propagation ---------------------------
(***************************************************************************)
(* All sequences of upstream commits, upstream revocations, downstream     *)
(* edits and propagation calls (with one or two directives) up to MaxLen.  *)
(* Checked on every Propagate step: the as-designed algorithm does what    *)
(* Layer D says (Refines), which in turn gives Exact / Frame / Names /     *)
(* Quiet; repeating a call changes nothing (Idempotent).                   *)
(***************************************************************************)
EXTENDS Propagation, Json

CONSTANTS MaxLen, Dev, EmitMod, EmitRes
VARIABLES w, acts

E(p, b, m) == [p |-> p, b |-> b, m |-> m]
\* upstream trees
UpTrees == {
    {E(<<"r">>, 1, "f"), E(<<"s", "f">>, 2, "f"), E(<<"s", "t", "g">>, 3, "f")},
    {E(<<"r">>, 1, "f"), E(<<"s", "f">>, 4, "x"), E(<<"s", "t", "g">>, 3, "f"), E(<<"odd">>, 5, "f")},
    {E(<<"s", "f">>, 2, "f"), E(<<"s", "odd">>, 6, "f")},
    {E(<<"r">>, 7, "f")} }
DownInit == {E(<<"keep">>, 10, "f"), E(<<"exe">>, 11, "x"), E(<<"lnk">>, 12, "l"), E(<<"v", "old">>, 13, "f"), E(<<"vx", "y">>, 14, "f"), E(<<"oddd">>, 15, "f")}
UpPaths == {<<>>, <<"s">>, <<"s", "t">>}
DownPaths == {<<"v">>, <<"w", "p">>}
Dirs == {[up |-> u, down |-> d, slash |-> sl] : u \in UpPaths, d \in DownPaths, sl \in BOOLEAN}
DirLists == {<<d>> : d \in Dirs} \cup {<<d1, d2>> : d1 \in {x \in Dirs : ~x.slash /\ x.down = <<"v">>}, d2 \in {x \in Dirs : ~x.slash /\ x.down = <<"w", "p">>}}

Actions ==
    {[a |-> "upcommit", tree |-> t] : t \in UpTrees} \cup {[a |-> "upskip"]}
    \cup {[a |-> "downedit", what |-> x] : x \in {"keep", "inside"}}
    \cup {[a |-> "propagate", dirs |-> ds] : ds \in DirLists}

StripSlash(d) == [up |-> d.up, down |-> d.down]
Step(s, a, D) ==
    CASE a.a = "upcommit" -> [s EXCEPT !.up = Append(@, [tree |-> a.tree, skipped |-> FALSE])]
      [] a.a = "upskip"   -> IF s.up = <<>> THEN s ELSE [s EXCEPT !.up[Len(s.up)].skipped = TRUE]
      [] a.a = "downedit" -> IF a.what = "keep"
                             THEN [s EXCEPT !.down.tree = (@ \ {e \in @ : e.p = <<"keep">>}) \cup {E(<<"keep">>, 20 + s.down.commits, "f")},
                                            !.down.commits = @ + 1]
                             ELSE [s EXCEPT !.down.tree = (@ \ {e \in @ : e.p = <<"v", "local">>}) \cup {E(<<"v", "local">>, 30, "f")}, !.down.commits = @ + 1]
      [] a.a = "propagate" -> After(s, [i \in DOMAIN a.dirs |-> StripSlash(a.dirs[i])], D)

Init == w = [up |-> <<>>, down |-> [tree |-> DownInit, commits |-> 1, log |-> <<>>]] /\ acts = <<>>
Next == /\ Len(acts) < MaxLen
        /\ \E a \in Actions : w' = Step(w, a, Dev) /\ acts' = Append(acts, a)
Spec == Init /\ [][Next]_<<w, acts>>
View == w

\* checked for every directive list on every reachable world (so for every call, not only the ones taken)
DL(ds) == [i \in DOMAIN ds |-> StripSlash(ds[i])]
Refines == \A ds \in DirLists : After(w, DL(ds), Dev) = AfterD(w, DL(ds))
Guarantees == \A d \in Dirs : LET sd == StripSlash(d) r == PropagateD(w, sd) IN
                 /\ r.res \in {"done", "noop"} => Exact(w, sd, r.w)
                 /\ Frame(w, sd, r.w) /\ Names(w, sd, r.w) /\ Quiet(w, sd, r.w)
                 /\ r.res \in {"none", "error", "noop"} => r.w = w
Idempotent == \A ds \in DirLists : LET w1 == After(w, DL(ds), Dev) IN
                 (\A k \in DOMAIN RunDirs(w, DL(ds), Dev) : RunDirs(w, DL(ds), Dev)[k].res # "error") => After(w1, DL(ds), Dev) = w1
\* two directives with disjoint downstream paths do not disturb each other (needed for Idempotent over lists)

Weight == Len(acts) * 3 + Len(w.up) * 5 + w.down.commits * 7 + Len(w.down.log) * 11 + Cardinality(w.down.tree)
TreeJ(t) == SetToSeq(t)
ActJ(a) == CASE a.a = "upcommit" -> [a |-> "upcommit", tree |-> TreeJ(a.tree)]
             [] a.a = "propagate" -> [a |-> "propagate", dirs |-> a.dirs]
             [] OTHER -> a
Emit == IF acts # <<>> /\ acts[Len(acts)].a = "propagate" /\ Weight % EmitMod = EmitRes
        THEN PrintT(ToJson([t |-> "SCN", init |-> TreeJ(DownInit), acts |-> [i \in DOMAIN acts |-> ActJ(acts[i])]]))
        ELSE TRUE
=============================================================================
