---------------------------- MODULE MC_Metadata ----------------------------
(***************************************************************************)
(* All sequences of metadata edits, with valid and invalid arguments, up   *)
(* to MaxLen: well-formedness is inductive over accepted edits and refused *)
(* edits change nothing.  One history per distinct metadata state is       *)
(* emitted for replay on real tufv01 / tufv02 objects.                     *)
(***************************************************************************)
EXTENDS Metadata, Json

CONSTANTS MaxLen, Dev, Which, EmitMod, EmitRes     \* Which \in {"file", "root"}
VARIABLES f, r, hist

PrLists == {<<"p1">>, <<"p1", "p2">>, <<"p1", "p1">>, <<"p9">>, <<>>}
FileEdits ==
    {[op |-> o, name |-> n, prl |-> l, thr |-> t] : o \in {"AddRule", "UpdateRule"}, n \in {"a", "b", "gittuf-x"}, l \in PrLists, t \in {0, 1, 2}}
    \cup {[op |-> "RemoveRule", name |-> n] : n \in {"a", "b", "gittuf-allow-rule"}}
    \cup {[op |-> "ReorderRules", names |-> ns] : ns \in {<<>>, <<"a">>, <<"b", "a">>, <<"a", "b">>, <<"a", "a">>, <<"a", "gittuf-allow-rule">>}}
    \cup {[op |-> "AddPrincipal", p |-> p] : p \in {"p1", "p2"}}
    \cup {[op |-> "RemovePrincipal", p |-> p] : p \in {"p1", "p2", "p9", ""}}
RootEdits ==
    {[op |-> o, p |-> p] : o \in {"AddRootPrincipal", "DeleteRootPrincipal", "AddPrimaryRuleFilePrincipal", "DeletePrimaryRuleFilePrincipal"}, p \in {"p1", "p2", "p9"}}
    \cup {[op |-> "DeletePrimaryRuleFilePrincipal", p |-> ""]}
    \cup {[op |-> o, thr |-> t] : o \in {"UpdateRootThreshold", "UpdatePrimaryRuleFileThreshold"}, t \in {0, 1, 2, 3}}
    \cup {[op |-> o, name |-> n, kind |-> k, thr |-> t] : o \in {"AddGlobalRule", "UpdateGlobalRule"}, n \in {"g1", "g2"},
                                                        k \in {"threshold", "bfp"}, t \in {0, 1}}
    \cup {[op |-> "DeleteGlobalRule", name |-> n] : n \in {"g1", "g3"}}
    \cup {[op |-> o, stages |-> st, name |-> n] : o \in {"AddHook", "RemoveHook"}, st \in {<<"pre">>, <<"push">>, <<"pre", "push">>, <<"push", "pre">>}, n \in {"h1", "h2"}}

MultiEdits ==
    {[op |-> o] : o \in {"EnableController", "DisableController"}}
    \cup {[op |-> o, name |-> n] : o \in {"AddControllerRepository", "AddNetworkRepository"}, n \in {"r1", "r2"}}
    \cup {[op |-> "AddRootPrincipal", p |-> "p2"], [op |-> "UpdateRootThreshold", thr |-> 2]}
    \cup {[op |-> o, name |-> n, spec |-> sp] : o \in {"AddPropagationDirective", "UpdatePropagationDirective"}, n \in {"d1", "d2"}, sp \in {"s1", "s2"}}
    \cup {[op |-> "DeletePropagationDirective", name |-> n] : n \in {"d1", "d2"}}

Init == f = NewFile /\ r = NewRoot("p1") /\ hist = <<>>
Next == /\ Len(hist) < MaxLen
        /\ IF Which = "file"
           THEN \E e \in FileEdits : f' = ApplyF(f, e, FALSE, Dev).m /\ r' = r /\ hist' = Append(hist, e)
           ELSE \E e \in (IF Which = "multi" THEN MultiEdits ELSE RootEdits) : r' = ApplyR(r, e, Dev).m /\ f' = f /\ hist' = Append(hist, e)
Spec == Init /\ [][Next]_<<f, r, hist>>

View == <<f, r>>
WF == WFFile(f) /\ WFRoot(r)
\* a refused edit leaves what queries can observe unchanged
RefusedUnchanged == /\ \A e \in FileEdits : ~ApplyF(f, e, FALSE, Dev).ok => ViewF(ApplyF(f, e, FALSE, Dev).m) = ViewF(f)
                    /\ \A e \in RootEdits \cup MultiEdits : ~ApplyR(r, e, Dev).ok => ViewR(ApplyR(r, e, Dev).m) = ViewR(r)

Weight == Len(r.pd) * 29 + Len(r.multi.cr) * 17 + Len(r.multi.nr) * 19 + (IF r.multi.ctl THEN 23 ELSE 0) + Len(hist) * 7 + Len(f.rules) * 5 + Cardinality(f.pr) * 3 + Cardinality(r.root.ids) * 11 + Len(r.globals) * 13 + Len(r.hooks.pre) + Len(r.hooks.push) * 2
Emit == IF hist # <<>> /\ Weight % EmitMod = EmitRes
        THEN PrintT(ToJson([t |-> "SCN", which |-> Which, edits |-> hist])) ELSE TRUE
=============================================================================
