----------------------------- MODULE MC_Faults -----------------------------
(***************************************************************************)
(* For every operation, starting state and fault / crash point: the ideal  *)
(* programs (Dev = {}) satisfy the C16 post-conditions, and the            *)
(* uninterrupted run leaves every managed ref in sync with the log.        *)
(***************************************************************************)
EXTENDS Faults, Json

CONSTANTS Dev
VARIABLES case

Cases == {<<m[1], m[2], n, crash>> : m \in Matrix, n \in 0..4, crash \in BOOLEAN}
Init == case \in {c \in Cases : c[3] <= NMuts(c[1], Start(c[2]))}
Next == UNCHANGED case
Spec == Init /\ [][Next]_case

Check(c) ==
    LET op == c[1] s0 == Start(c[2]) n == c[3] crash == c[4]
        clean == Run(op, s0, 99, FALSE, Dev)
        f     == Run(op, s0, n, crash, Dev)
        retry == Run(op, f.s, 99, FALSE, Dev)
        unch  == [r \in Managed |-> f.s.val[r] = s0.val[r]]
    IN /\ ~clean.err /\ \A r \in Managed : Status(clean.s, r) \in {0, 1}
       /\ IF n >= NMuts(op, s0) THEN Proj(f.s) = Proj(clean.s)
          ELSE IF crash THEN CrashOK(Proj(s0), Proj(f.s), Proj(clean.s))
          ELSE FaultOK(Proj(s0), Proj(f.s), unch, f.err, retry.err, Proj(retry.s), Proj(clean.s))
PostConditions == Check(case)
=============================================================================
