SPECIFICATION Spec
CONSTANTS
  MaxFiles = 3
  MaxPerFile = 2
  MaxTotal = 3
  EmitMod = 7
  EmitRes = 1
INVARIANT Refines
CONSTRAINT Emit
CHECK_DEADLOCK FALSE
