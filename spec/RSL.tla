------------------------------- MODULE RSL -------------------------------
(***************************************************************************)
(* The Reference State Log as a chain of entries, and its readers.         *)
(*                                                                         *)
(* A chain c is a sequence of entries, OLDEST FIRST; an entry is           *)
(* identified by its position.  Entry fields:                              *)
(*   k    \in {"ref","prop","ann"}                                         *)
(*   ref  reference name ("" for annotations)                              *)
(*   t    abstract target id (Nat; 0 for annotations)                      *)
(*   up   upstream repository ("" unless k = "prop")                       *)
(*   tg   sequence of positions an annotation refers to                    *)
(*   skip annotation skip flag                                             *)
(*   num  entry number, 0 = legacy unnumbered                              *)
(*   xp   TRUE iff the commit carries an extra parent   (tamper)           *)
(* A commit whose message is not an entry at all has k = "garb" (tamper).  *)
(*                                                                         *)
(* Layer D: Scan*  -- set-comprehension definition of each reader          *)
(* Layer I: Walk*  -- the newest-to-oldest walk exactly as coded in        *)
(*                    pkg/rsl/rsl.go                                       *)
(* Dev is the set of named deviations (known findings) switched on.        *)
(***************************************************************************)
EXTENDS Integers, Sequences, FiniteSets, SequencesExt, FiniteSetsExt, TLC

GittufPrefix  == "refs/gittuf/"
PolicyRef     == "refs/gittuf/policy"
StagingRef    == "refs/gittuf/policy-staging"
AttRef        == "refs/gittuf/attestations"
GittufRefs    == {PolicyRef, StagingRef, AttRef}
IsGittufRef(r)      == r \in GittufRefs            \* HasPrefix(r, "refs/gittuf/") over the model's ref alphabet
IsRelevantGittuf(r) == IsGittufRef(r) /\ r # StagingRef

IsUpd(e) == e.k \in {"ref", "prop"}
IsAnn(e) == e.k = "ann"
TgSet(e) == {e.tg[x] : x \in DOMAIN e.tg}

\* error codes (negative so that they never collide with positions)
ENotFound == 0 - 1
EBranch   == 0 - 2
EInvalid  == 0 - 3
EOptions  == 0 - 4
ENoNum    == 0 - 5
EUntilNum == 0 - 6
ErrName(x) == CASE x = ENotFound -> "notfound" [] x = EBranch -> "branch" [] x = EInvalid -> "invalid"
                [] x = EOptions -> "options" [] x = ENoNum -> "nonum" [] x = EUntilNum -> "untilnum"
                [] OTHER -> "ok"

Err(x)      == [e |-> x, anns |-> {}]
Found(i, a) == [e |-> i, anns |-> a]

(***************************************************************************)
(* Well-formedness and the tamper model                                    *)
(***************************************************************************)
NumOK(c, i) ==   \* the numbering rule between entry i and its parent i-1
    IF c[i].num \in {0, 1} THEN c[i - 1].num = 0 ELSE c[i - 1].num = c[i].num - 1

\* GetParentForEntry from position i: a position, or an error code
Step(c, i) ==
    IF i = 1 THEN ENotFound
    ELSE IF c[i].xp THEN EBranch
    ELSE IF c[i - 1].k = "garb" THEN EInvalid
    ELSE IF ~NumOK(c, i) THEN EInvalid
    ELSE i - 1

\* GetLatestEntry: position of the tip or an error
Latest(c) == IF c = <<>> THEN ENotFound ELSE IF c[Len(c)].k = "garb" THEN EInvalid ELSE Len(c)

\* positions whose outgoing step (or own decoding) is tampered
BadStep(c, i) == i > 1 /\ Step(c, i) < 0
Tampered(c)   == (\E i \in 2..Len(c) : BadStep(c, i)) \/ (\E i \in 1..Len(c) : c[i].k = "garb")

WellFormed(c) ==
    /\ \A i \in 1..Len(c) : ~c[i].xp /\ c[i].k # "garb"
    /\ \A i \in 2..Len(c) : NumOK(c, i)
    /\ \A i \in 1..Len(c) : IsAnn(c[i]) => \A j \in TgSet(c[i]) : j < i

(***************************************************************************)
(* Layer D                                                                 *)
(***************************************************************************)
AnnsOn(c, i)  == {j \in (i + 1)..Len(c) : IsAnn(c[j]) /\ i \in TgSet(c[j])}
Skipped(c, i) == c[i].k = "ref" /\ \E j \in AnnsOn(c, i) : c[j].skip

\* query options record:
\*  ref ("" = any), bid / bnum (before by position / number, 0 = unset),
\*  uid / unum (until), unsk, nong, isref, prepo ("" = unset)
Matches(c, i, o) ==
    /\ IsUpd(c[i])
    /\ (o.ref = "" \/ c[i].ref = o.ref)
    /\ (o.isref => c[i].k = "ref")
    /\ (o.unsk => ~Skipped(c, i))
    /\ (o.prepo # "" => c[i].k = "prop" /\ c[i].up = o.prepo)
    /\ (o.nong => ~IsGittufRef(c[i].ref))

PosOfNum(c, n) == LET S == {i \in 1..Len(c) : c[i].num = n /\ n # 0} IN IF S = {} THEN 0 ELSE Max(S)

\* documented contract: before is exclusive, until is inclusive
BeforePos(c, o) == IF o.bid # 0 THEN (IF o.bid \in 1..Len(c) THEN o.bid ELSE 0)
                   ELSE PosOfNum(c, o.bnum)
HasBefore(o) == o.bid # 0 \/ o.bnum # 0
Hi(c, o) == IF HasBefore(o) THEN BeforePos(c, o) - 1 ELSE Len(c)
Lo(c, o) == IF o.uid # 0 THEN (IF o.uid \in 1..Len(c) THEN o.uid ELSE 1)
            ELSE IF o.unum # 0 THEN Min({i \in 1..Len(c) : c[i].num >= o.unum} \cup {Len(c) + 1})
            ELSE 1

StaticBadOptions(o) ==
    \/ o.bid # 0 /\ o.bnum # 0
    \/ o.uid # 0 /\ o.unum # 0
    \/ o.bnum # 0 /\ o.unum # 0 /\ o.bnum < o.unum
    \/ o.isref /\ o.prepo # ""

\* the before anchor lies below the until-number bound: contradictory bounds
BeforeBelowUntil(c, o) ==
    /\ o.unum # 0 /\ HasBefore(o) /\ BeforePos(c, o) # 0
    /\ \E i \in BeforePos(c, o)..(Len(c) - 1) : c[i].num < o.unum

ScanLatest(c, o) ==
    IF StaticBadOptions(o) THEN Err(EOptions)
    ELSE IF c = <<>> THEN Err(ENotFound)
    ELSE IF c[Len(c)].num = 0 /\ (o.bnum # 0 \/ o.unum # 0) THEN Err(ENoNum)
    ELSE IF c[Len(c)].num # 0 /\ o.unum # 0 /\ c[Len(c)].num < o.unum THEN Err(EUntilNum)
    ELSE IF BeforeBelowUntil(c, o) THEN Err(EOptions)
    ELSE LET S == {i \in Lo(c, o)..Hi(c, o) : Matches(c, i, o)} IN
         IF S = {} THEN Err(ENotFound) ELSE Found(Max(S), AnnsOn(c, Max(S)))

ScanFirst(c, r) ==
    LET S == {i \in 1..Len(c) : IsUpd(c[i]) /\ (r = "" \/ c[i].ref = r)} IN
    IF S = {} THEN Err(ENotFound) ELSE Found(Min(S), AnnsOn(c, Min(S)))

\* range [f, l] by position; result: ordered positions + annotations on each
RangeRelevant(c, i, r) == IsUpd(c[i]) /\ (r = "" \/ c[i].ref = r \/ IsRelevantGittuf(c[i].ref))
ScanRange(c, f, l, r) ==
    IF ~(f \in 1..Len(c)) \/ ~(l \in 1..Len(c)) \/ f > l THEN [err |-> ENotFound, es |-> <<>>, anns |-> <<>>]
    ELSE LET S == {i \in f..l : RangeRelevant(c, i, r)}
             es == SetToSortSeq(S, <)
         IN [err |-> 0, es |-> es, anns |-> [x \in DOMAIN es |-> AnnsOn(c, es[x])]]

\* first non-gittuf updater strictly before position i
ScanNonGittufParent(c, i) ==
    LET S == {j \in 1..(i - 1) : IsUpd(c[j]) /\ ~IsGittufRef(c[j].ref)} IN
    IF S = {} THEN Err(ENotFound) ELSE Found(Max(S), AnnsOn(c, Max(S)))

(***************************************************************************)
(* Layer I : the walkers as coded                                          *)
(***************************************************************************)
AnnAt(c, i) == IF IsAnn(c[i]) THEN {i} ELSE {}
SkippedBy(c, i, anns) == \E j \in anns : i \in TgSet(c[j]) /\ c[j].skip
Relevant(c, i, anns)  == {j \in anns : i \in TgSet(c[j])}

MatchesI(c, i, o, anns) ==
    /\ IsUpd(c[i])
    /\ (o.ref = "" \/ c[i].ref = o.ref)
    /\ (o.isref => c[i].k = "ref")
    /\ (c[i].k = "ref" /\ o.unsk => ~SkippedBy(c, i, anns))
    /\ (o.prepo # "" => c[i].k = "prop" /\ c[i].up = o.prepo)
    /\ (o.nong => ~IsGittufRef(c[i].ref))

IsBeforeAnchor(c, i, o) == (o.bid # 0 /\ i = o.bid) \/ ~(c[i].num = 0 \/ c[i].num # o.bnum)

\* main loop of GetLatestReferenceUpdaterEntry from position i with the
\* annotations collected so far
RECURSIVE WalkMain(_, _, _, _, _)
WalkMain(c, i, o, anns, Dev) ==
    LET anns2 == anns \cup AnnAt(c, i) IN
    IF MatchesI(c, i, o, anns) THEN Found(i, Relevant(c, i, anns))
    ELSE
      \* repaired order: the until-id test precedes the step to the parent
      IF "UntilEntryIdExclusive" \notin Dev /\ o.uid # 0 /\ i = o.uid THEN Err(ENotFound)
      ELSE
      LET p == Step(c, i) IN
      IF p < 0 THEN Err(p)
      ELSE IF o.unum # 0 /\ c[p].num < o.unum THEN Err(ENotFound)
      ELSE IF "UntilEntryIdExclusive" \in Dev /\ o.uid # 0 /\ p = o.uid THEN Err(ENotFound)
      ELSE WalkMain(c, p, o, anns2, Dev)

RECURSIVE WalkBefore(_, _, _, _, _)
WalkBefore(c, i, o, anns, Dev) ==
    IF IsBeforeAnchor(c, i, o) THEN
        LET anns2 == anns \cup AnnAt(c, i)
            p == Step(c, i) IN
        IF "UntilNotAppliedAtBeforeAnchor" \notin Dev /\ o.uid # 0 /\ i = o.uid THEN Err(ENotFound)
        ELSE IF p < 0 THEN Err(p)
        ELSE IF "UntilNotAppliedAtBeforeAnchor" \notin Dev /\ o.unum # 0 /\ c[p].num < o.unum THEN Err(ENotFound)
        ELSE WalkMain(c, p, o, anns2, Dev)
    ELSE
        LET anns2 == anns \cup AnnAt(c, i)
            p == Step(c, i) IN
        IF "BeforeAnchorBelowUntilId" \notin Dev /\ o.uid # 0 /\ i = o.uid THEN Err(EOptions)
        ELSE IF p < 0 THEN Err(p)
        ELSE IF c[p].num < o.unum THEN Err(EOptions)
        ELSE WalkBefore(c, p, o, anns2, Dev)

WalkLatest(c, o, Dev) ==
    IF StaticBadOptions(o) THEN Err(EOptions)
    ELSE LET top == Latest(c) IN
    IF top < 0 THEN Err(top)
    ELSE IF c[top].num = 0 /\ (o.bnum # 0 \/ o.unum # 0) THEN Err(ENoNum)
    ELSE IF c[top].num # 0 /\ o.unum # 0 /\ c[top].num < o.unum THEN Err(EUntilNum)
    ELSE IF HasBefore(o) THEN WalkBefore(c, top, o, {}, Dev)
    ELSE WalkMain(c, top, o, {}, Dev)

RECURSIVE WalkFirstR(_, _, _, _, _)
WalkFirstR(c, i, r, anns, first) ==
    LET first2 == IF IsUpd(c[i]) /\ (r = "" \/ c[i].ref = r) THEN i ELSE first
        anns2  == anns \cup AnnAt(c, i)
        p == Step(c, i) IN
    IF p = ENotFound THEN (IF first2 = 0 THEN Err(ENotFound) ELSE Found(first2, Relevant(c, first2, anns2)))
    ELSE IF p < 0 THEN Err(p)
    ELSE WalkFirstR(c, p, r, anns2, first2)
WalkFirst(c, r) == LET top == Latest(c) IN IF top < 0 THEN Err(top) ELSE WalkFirstR(c, top, r, {}, 0)

\* GetReferenceUpdaterEntriesInRangeForRef
RECURSIVE WalkToLast(_, _, _, _)
WalkToLast(c, i, l, anns) ==      \* returns <<position or error, annotations>>
    IF i = l THEN <<i, anns>>
    ELSE LET p == Step(c, i) IN IF p < 0 THEN <<p, anns>> ELSE WalkToLast(c, p, l, anns \cup AnnAt(c, i))
RECURSIVE WalkToFirst(_, _, _, _, _, _)
WalkToFirst(c, i, f, r, anns, stack) ==   \* stack: newest first
    IF i = f THEN
        LET stack2 == IF RangeRelevant(c, i, r) THEN Append(stack, i) ELSE stack IN <<0, anns, stack2>>
    ELSE LET stack2 == IF RangeRelevant(c, i, r) THEN Append(stack, i) ELSE stack
             p == Step(c, i) IN
         IF p < 0 THEN <<p, anns, stack2>> ELSE WalkToFirst(c, p, f, r, anns \cup AnnAt(c, i), stack2)
WalkRange(c, f, l, r) ==
    LET top == Latest(c) IN
    IF top < 0 THEN [err |-> top, es |-> <<>>, anns |-> <<>>]
    ELSE LET a == WalkToLast(c, top, l, {}) IN
    IF a[1] < 0 THEN [err |-> a[1], es |-> <<>>, anns |-> <<>>]
    ELSE LET b == WalkToFirst(c, a[1], f, r, a[2], <<>>) IN
    IF b[1] < 0 THEN [err |-> b[1], es |-> <<>>, anns |-> <<>>]
    ELSE LET es == Reverse(b[3]) IN
         [err |-> 0, es |-> es, anns |-> [x \in DOMAIN es |-> Relevant(c, es[x], b[2])]]

\* GetNonGittufParentReferenceUpdaterEntryForEntry
RECURSIVE WalkDownTo(_, _, _, _)
WalkDownTo(c, i, stop, anns) ==   \* walk from i until the iterator equals stop (checked after each step)
    LET p == Step(c, i) IN
    IF p < 0 THEN <<p, anns>>
    ELSE IF p = stop THEN <<p, anns \cup AnnAt(c, i)>>
    ELSE WalkDownTo(c, p, stop, anns \cup AnnAt(c, i))
RECURSIVE WalkNGMain(_, _, _)
WalkNGMain(c, i, anns) ==
    IF IsUpd(c[i]) /\ ~IsGittufRef(c[i].ref) THEN Found(i, Relevant(c, i, anns))
    ELSE LET p == Step(c, i) IN IF p < 0 THEN Err(p) ELSE WalkNGMain(c, p, anns \cup AnnAt(c, i))
WalkNonGittufParent(c, i) ==
    LET top == Latest(c) IN
    IF top < 0 THEN Err(top)
    ELSE LET par == Step(c, i) IN
    IF par < 0 THEN Err(par)
    ELSE LET a == WalkDownTo(c, top, par, {}) IN     \* loops at least once: needs i # top's ... as coded
    IF a[1] < 0 THEN Err(a[1]) ELSE WalkNGMain(c, a[1], a[2])

(***************************************************************************)
(* Needed(c, q): positions a newest-to-oldest scan must step FROM (or      *)
(* decode) before the answer of Scan is determined -- fail-closed oracle.  *)
(***************************************************************************)
\* For "latest": every position strictly above the answer (or, when there is
\* no answer, down to the until bound / root) has to be stepped from.
LatestFloor(c, o) ==
    LET r == ScanLatest(c, o) IN
    IF r.e > 0 THEN r.e
    ELSE IF r.e # ENotFound THEN Len(c) + 1       \* decided without walking
    ELSE IF HasBefore(o) /\ BeforePos(c, o) = 0 THEN 1
    ELSE Max({Lo(c, o), 1})

(***************************************************************************)
(* Layer D on possibly tampered chains (fail-closed), as acceptability of  *)
(* an observed result obs = [e |-> position or error code, anns |-> set].  *)
(***************************************************************************)
BadAbove(c, floor) == Latest(c) < 0 \/ \E j \in (floor + 1)..Len(c) : BadStep(c, j)

DOKLatest(c, o, obs) ==
    LET d == ScanLatest(c, o) IN
    IF c # <<>> /\ BadAbove(c, LatestFloor(c, o)) THEN obs.e < 0
    ELSE IF d.e > 0 THEN obs = d
    ELSE obs.e < 0

DOKFirst(c, r, obs) ==
    LET d == ScanFirst(c, r) IN
    IF c # <<>> /\ BadAbove(c, 1) THEN obs.e < 0          \* the whole chain has to be walked
    ELSE IF d.e > 0 THEN obs = d ELSE obs.e < 0

DOKNonGittufParent(c, i, obs) ==
    LET d == ScanNonGittufParent(c, i) IN
    IF BadAbove(c, IF d.e > 0 THEN d.e ELSE 1) THEN obs.e < 0
    ELSE IF d.e > 0 THEN obs = d ELSE obs.e < 0

\* obs = [err |-> code or 0, es |-> Seq(position), anns |-> Seq(set)]
DOKRange(c, f, l, r, obs) ==
    LET d == ScanRange(c, f, l, r) IN
    IF d.err < 0 THEN obs.err < 0
    ELSE IF BadAbove(c, f) THEN obs.err < 0
    ELSE obs = d
=============================================================================
