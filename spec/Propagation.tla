----------------------------- MODULE Propagation -----------------------------
(***************************************************************************)
(* Propagation of an upstream reference's recorded tree into a path of a   *)
(* downstream reference (internal/propagation, CreateSubtreeFromUpstream-  *)
(* Repository) -- C18.                                                     *)
(*                                                                         *)
(* A tree is a set of entries [p : Seq(component), b : blob, m : mode];    *)
(* modes are "f" (regular), "x" (executable), "l" (symbolic link).         *)
(* A world is                                                              *)
(*   up   : Seq([tree, skipped])      the upstream log for the reference   *)
(*   down : [tree, commits, log]      the downstream reference: its tree,  *)
(*          the number of commits made on it, and its propagation entries  *)
(*          [dir, upidx]                                                   *)
(* A directive is [up : path, down : path] (up = <<>>: the whole tree).    *)
(*                                                                         *)
(* Deviations:                                                             *)
(*  "AlreadyPropagatedIgnoresUpstreamPath"  the already-propagated check   *)
(*       compares the downstream subtree with the WHOLE upstream tree even *)
(*       when the directive names an upstream path                         *)
(*  "ModesNotPreserved"  the downstream tree is rebuilt from a flattened   *)
(*       path -> blob list, so every entry that is not part of a grafted   *)
(*       existing subtree becomes a regular file                           *)
(***************************************************************************)
EXTENDS Integers, Sequences, FiniteSets, SequencesExt, TLC

Under(T, pre) == {e \in T : Len(e.p) > Len(pre) /\ SubSeq(e.p, 1, Len(pre)) = pre}
Sub(T, pre)   == {[e EXCEPT !.p = SubSeq(e.p, Len(pre) + 1, Len(e.p))] : e \in Under(T, pre)}
Graft(T, pre, S) == (T \ Under(T, pre)) \cup {[e EXCEPT !.p = pre \o e.p] : e \in S}
Plain(T) == {[e EXCEPT !.m = "f"] : e \in T}

\* the upstream state a directive copies: the latest unskipped entry (0 = none)
LatestUnskipped(up) == LET S == {i \in 1..Len(up) : ~up[i].skipped} IN IF S = {} THEN 0 ELSE CHOOSE i \in S : \A j \in S : j <= i
Source(up, d) == LET i == LatestUnskipped(up) IN IF i = 0 THEN {} ELSE IF d.up = <<>> THEN up[i].tree ELSE Sub(up[i].tree, d.up)

(***************************************************************************)
(* Layer D: what one directive must do                                     *)
(***************************************************************************)
\* res: "none" (no upstream entry), "noop" (already there), "done", "error" (the upstream path does not exist)
PropagateD(w, d) ==
    LET i == LatestUnskipped(w.up) src == Source(w.up, d) IN
    IF i = 0 THEN [w |-> w, res |-> "none"]
    ELSE IF src = {} THEN [w |-> w, res |-> "error"]
    ELSE IF Sub(w.down.tree, d.down) = src THEN [w |-> w, res |-> "noop"]
    ELSE [w |-> [w EXCEPT !.down = [tree |-> Graft(w.down.tree, d.down, src), commits |-> @.commits + 1,
                                    log |-> Append(@.log, [dir |-> d, upidx |-> i])]],
          res |-> "done"]

(***************************************************************************)
(* Layer I: as coded                                                       *)
(***************************************************************************)
PropagateI(w, d, Dev) ==
    LET i == LatestUnskipped(w.up)
        src == Source(w.up, d)
        cmp == IF "AlreadyPropagatedIgnoresUpstreamPath" \in Dev /\ i # 0 THEN w.up[i].tree ELSE src
        cur == Sub(w.down.tree, d.down)
        lose == "ModesNotPreserved" \in Dev
    IN
    IF i = 0 THEN [w |-> w, res |-> "none"]
    ELSE IF cur # {} /\ cur = cmp THEN [w |-> w, res |-> "noop"]
    ELSE IF src = {} THEN [w |-> w, res |-> "error"]
    ELSE [w |-> [w EXCEPT !.down = [tree |-> IF lose THEN Plain(Graft(w.down.tree, d.down, src)) ELSE Graft(w.down.tree, d.down, src),
                                    commits |-> @.commits + 1, log |-> Append(@.log, [dir |-> d, upidx |-> i])]],
          res |-> "done"]

RECURSIVE RunDirs(_, _, _)
RunDirs(w, ds, Dev) == IF ds = <<>> THEN <<>> ELSE LET r == PropagateI(w, Head(ds), Dev) IN
                          <<r>> \o (IF r.res = "error" THEN <<>> ELSE RunDirs(r.w, Tail(ds), Dev))      \* an error aborts the call
RECURSIVE RunDirsD(_, _)
RunDirsD(w, ds) == IF ds = <<>> THEN <<>> ELSE LET r == PropagateD(w, Head(ds)) IN
                      <<r>> \o (IF r.res = "error" THEN <<>> ELSE RunDirsD(r.w, Tail(ds)))
After(w, ds, Dev) == IF ds = <<>> THEN w ELSE Last(RunDirs(w, ds, Dev)).w
AfterD(w, ds) == IF ds = <<>> THEN w ELSE Last(RunDirsD(w, ds)).w

(***************************************************************************)
(* The guarantees, as predicates on one directive's step                   *)
(***************************************************************************)
Exact(w, d, w2)  == Sub(w2.down.tree, d.down) = Source(w.up, d)
Frame(w, d, w2)  == w2.down.tree \ Under(w2.down.tree, d.down) = w.down.tree \ Under(w.down.tree, d.down)
Names(w, d, w2)  == w2.down.log # w.down.log => Last(w2.down.log) = [dir |-> d, upidx |-> LatestUnskipped(w.up)]
Quiet(w, d, w2)  == Sub(w.down.tree, d.down) = Source(w.up, d) => w2 = w
=============================================================================
