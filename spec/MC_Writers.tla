---------------------------- MODULE MC_Writers ----------------------------
(***************************************************************************)
(* Bounded instances of Writers: all interleavings of 2-3 concurrent       *)
(* recording operations (C17) and all sequential operation sequences from  *)
(* empty / numbered / legacy logs (C03).  Terminal states are emitted as   *)
(* scenarios (jobs + schedule + expected outcome) for replay.              *)
(***************************************************************************)
EXTENDS Writers, Json

CONSTANTS Mode,        \* "seq" (one writer, MaxSeq jobs) | "conc2" | "conc3"
          MaxSeq,
          EmitOn,      \* TRUE: print terminal states as scenarios
          Dev

VARIABLES st, sched

W == CASE Mode = "seq" -> {"w1"} [] Mode = "conc2" -> {"w1", "w2"} [] OTHER -> {"w1", "w2", "w3"}
MaxJobs == [w \in W |-> IF Mode = "seq" THEN MaxSeq ELSE IF Mode = "conc2" /\ w = "w1" THEN 2 ELSE 1]

E0(k, ref, num) == [k |-> k, ref |-> ref, t |-> 1, up |-> "", tg |-> <<>>, skip |-> FALSE, num |-> num, xp |-> FALSE,
                    w |-> "", j |-> 0]
\* empty, numbered, legacy (unnumbered) and longer starting logs; CommitWithoutNumber is a test-support
\* writer and not one of the recording operations, so legacy entries only occur in starting logs
InitChains == {<<>>, <<E0("ref", "refs/heads/main", 1)>>, <<E0("ref", "refs/heads/main", 0)>>,
               <<E0("ref", "refs/heads/main", 0), E0("ref", "refs/heads/feat", 0)>>,
               <<E0("ref", "refs/heads/main", 1), E0("ref", "refs/heads/feat", 2)>>}

JobChoices(c) ==
    {[op |-> "ref", ref |-> r, t |-> 2] : r \in {"refs/heads/main", "refs/heads/feat"}}
    \cup {[op |-> "prop", ref |-> "refs/heads/main", t |-> 3, up |-> "u1"]}
    \* annotation targets: positions; 0 = an existing commit that is not an RSL entry, 99 = no such object
    \cup {[op |-> "ann", tg |-> tg, skip |-> TRUE] : tg \in {<<1>>, <<0>>, <<1, 2>>} \cup (IF Mode = "seq" THEN {<<99>>, <<1, 0>>} ELSE {})}
    \cup {[op |-> "branch", ref |-> r] : r \in {StagingRef, AttRef}}
    \cup (IF Mode = "seq" THEN {[op |-> "apply"]} ELSE {})

Init == /\ \E c \in InitChains : st = InitState(W, c)
        /\ sched = <<>>

Submit(w) ==
    /\ st.pc[w] = "idle" /\ st.jix[w] > Len(st.jobs[w]) /\ Len(st.jobs[w]) < MaxJobs[w]
    /\ \E jb \in JobChoices(st.chain) : st' = [st EXCEPT !.jobs[w] = Append(@, jb)]
    /\ UNCHANGED sched

Do(w) == /\ CanStep(st, w)
         /\ st' = Apply(st, w, Dev)
         /\ sched' = Append(sched, <<w, Label(st, w)>>)

Next == \E w \in W : Submit(w) \/ Do(w)
Spec == Init /\ [][Next]_<<st, sched>>

View == st

AllDone == \A w \in W : st.pc[w] = "idle" /\ st.jix[w] > Len(st.jobs[w]) /\ Len(st.jobs[w]) = MaxJobs[w]

\* C03 / C17: invariants of every reachable state, and the append-only action property
Inv == LogOK(st.chain, st.res, st.jobs)
AppendOnly == [][IsPrefix(st.chain, st'.chain)]_<<st, sched>>
\* C03 (sequential): between operations every managed branch matches its latest log entry
SeqBranch == (Mode = "seq" /\ \A w \in W : st.pc[w] = "idle") => BranchConsistent(st)

Proj(e) == [k |-> e.k, ref |-> e.ref, num |-> e.num, tg |-> e.tg, skip |-> e.skip, w |-> e.w, j |-> e.j]
Emit == IF EmitOn /\ AllDone
        THEN PrintT(ToJson([t |-> "SCN", mode |-> Mode,
                            init |-> [i \in 1..Cardinality({x \in DOMAIN st.chain : st.chain[x].w = ""}) |-> Proj(st.chain[i])],
                            jobs |-> st.jobs, sched |-> sched, res |-> st.res,
                            chain |-> [i \in DOMAIN st.chain |-> Proj(st.chain[i])]]))
        ELSE TRUE
=============================================================================
