SPECIFICATION Spec
CONSTANTS
  MaxLen = 6
  Dev = {}
  AsBuilt = {"StaleCachePolicyLookup", "FixEntryNotVerified", "PropagationEntryNotVerified", "ExhaustiveVerifierShortCircuit"}
  EmitMod = 101
  EmitRes = 1
  Pol <- MCPol
INVARIANT CacheInvisible
VIEW View
CONSTRAINT Emit
CHECK_DEADLOCK FALSE
