------------------------------ MODULE MC_HookSel ------------------------------
(***************************************************************************)
(* Hook selection (last clause of C20): every set of up to MaxHooks hooks  *)
(* over stages {pre, push} and principals {p1, p2, P3 (a person with two   *)
(* keys)}, invoked for the pre-commit stage with each key.  Checked: only  *)
(* hooks the policy assigns to the key's owner for that stage are run, all *)
(* of them, and nobody's key runs nothing.                                 *)
(***************************************************************************)
EXTENDS Sandbox, Json, FiniteSetsExt, SequencesExt

CONSTANTS MaxHooks
VARIABLES hooks, key

Names == {"h1", "h2", "h3"}
HookChoices(n) == {[name |-> n, stages |-> st, pr |-> pr] : st \in {{"pre"}, {"push"}, {"pre", "push"}},
                                                          pr \in {{"p1"}, {"p2"}, {"P3"}, {"p1", "p2"}, {"p2", "P3"}}}
Init == hooks = {} /\ key \in DOMAIN KeyOwner
Next == /\ Cardinality(hooks) < MaxHooks
        /\ \E n \in Names \ {h.name : h \in hooks} : \E h \in HookChoices(n) : hooks' = hooks \cup {h}
        /\ UNCHANGED key
Spec == Init /\ [][Next]_<<hooks, key>>

OnlyAssigned == LET r == SelResult(hooks, "pre", key) IN
                   /\ \A n \in r.ran : \E h \in hooks : h.name = n /\ "pre" \in h.stages /\ KeyOwner[key] \in h.pr
                   /\ \A h \in hooks : ("pre" \in h.stages /\ KeyOwner[key] \in h.pr) => h.name \in r.ran
                   /\ (KeyOwner[key] = "" => r.ran = {})
HJ(h) == [name |-> h.name, stages |-> SetToSeq(h.stages), pr |-> SetToSeq(h.pr)]
Emit == IF hooks # {} THEN PrintT(ToJson([t |-> "SCN", hooks |-> SetToSeq({HJ(h) : h \in hooks}), key |-> key])) ELSE TRUE
=============================================================================
