------------------------------- MODULE Faults -------------------------------
(***************************************************************************)
(* Mutating gittuf operations as programs of REFERENCE MUTATIONS (the only *)
(* storage calls that change what a later reader sees), with their         *)
(* rollback branches, under a single storage fault or a crash (C16).       *)
(*                                                                         *)
(* State: [chain, val] -- chain: Seq of [k, ref, num, t]; val: managed ref *)
(* -> commit value (0 = absent).  A fault point is (n, isMut): n mutations *)
(* were completed, then a call failed; isMut tells whether the failing     *)
(* call was the (n+1)-th mutation itself or some read/object call before   *)
(* it -- both leave the store as it was after n mutations, and the         *)
(* operation's error path (rollback) runs.  A crash at n stops the process *)
(* after n mutations: no error path runs.                                  *)
(*                                                                         *)
(* Deviations:                                                             *)
(*  "FirstCommitNotRolledBack"   the reset of a branch is skipped when the *)
(*                               branch did not exist before (as coded)    *)
(*  "ReconcileStagingNoRollback" ReconcileStaging moves policy-staging and *)
(*                               does not restore it when the entry cannot *)
(*                               be written (as coded)                     *)
(***************************************************************************)
EXTENDS Integers, Sequences, FiniteSets, SequencesExt, FiniteSetsExt, TLC

PolicyRef  == "refs/gittuf/policy"
StagingRef == "refs/gittuf/policy-staging"
AttRef     == "refs/gittuf/attestations"
MainRef    == "refs/heads/main"
Managed    == {PolicyRef, StagingRef, AttRef}

E(k, ref, num, t) == [k |-> k, ref |-> ref, num |-> num, t |-> t]
TipNum(c) == IF c = <<>> THEN 0 ELSE c[Len(c)].num
Latest(c, r) == LET S == {i \in 1..Len(c) : c[i].k = "ref" /\ c[i].ref = r} IN IF S = {} THEN 0 ELSE c[Max(S)].t
\* status of a managed ref: 0 absent and never recorded, 1 equals its latest entry, 2 otherwise
Status(s, r) == IF s.val[r] = 0 /\ Latest(s.chain, r) = 0 THEN 0
                ELSE IF s.val[r] # 0 /\ s.val[r] = Latest(s.chain, r) THEN 1 ELSE 2

\* ---- starting states
S0(c, p, st, a) == [chain |-> c, val |-> (PolicyRef :> p @@ StagingRef :> st @@ AttRef :> a)]
Established == <<E("ref", StagingRef, 1, 10), E("ref", PolicyRef, 2, 10), E("ref", AttRef, 3, 20), E("ref", MainRef, 4, 1)>>
Start(name) ==
    CASE name = "empty"       -> S0(<<>>, 0, 0, 0)
      [] name = "first"       -> S0(<<E("ref", MainRef, 1, 1), E("ref", MainRef, 2, 2)>>, 0, 0, 0)
      [] name = "emptystaged" -> S0(<<E("ref", StagingRef, 1, 10)>>, 0, 10, 0)
      [] name = "established" -> S0(Established, 10, 10, 20)
      [] name = "staged"      -> S0(Established \o <<E("ref", StagingRef, 5, 11)>>, 10, 11, 20)
      [] name = "polahead"    -> S0(Established \o <<E("ref", PolicyRef, 5, 12)>>, 12, 10, 20)

Matrix == {<<"ref", "empty">>, <<"ref", "first">>, <<"ref", "established">>, <<"ann", "first">>, <<"ann", "established">>,
           <<"stage", "empty">>, <<"stage", "first">>, <<"stage", "established">>,
           <<"att", "empty">>, <<"att", "first">>, <<"att", "established">>,
           <<"apply", "emptystaged">>, <<"apply", "staged">>, <<"apply", "established">>,
           <<"reconcile", "polahead">>, <<"apply", "polahead">>}

\* ---- primitive mutations
Append1(s, k, ref, t) == [s EXCEPT !.chain = Append(@, E(k, ref, TipNum(s.chain) + 1, t))]
SetVal(s, r, v)       == [s EXCEPT !.val[r] = v]
Fresh(s) == 100 + Len(s.chain) + s.val[StagingRef] + s.val[AttRef]    \* a new commit value

\* A segment is a commit-then-record pair on ref r with new value v:
\*   mutation 1: r := v      mutation 2: append the entry for (r, v)
\* rollback after mutation 1: r := old, unless old = 0 and the deviation applies
\* (ideal: the ref is removed again).  budget = how many mutations may still
\* complete; crash = no error path.  Returns [s, left, failed].
Segment(s, r, v, budget, crash, rollbackDev, Dev) ==
    LET old == s.val[r] IN
    IF budget = 0 THEN [s |-> s, left |-> 0, failed |-> TRUE]
    ELSE IF budget = 1 THEN
         LET s1 == SetVal(s, r, v) IN
         IF crash THEN [s |-> s1, left |-> 0, failed |-> TRUE]
         ELSE IF rollbackDev \in Dev /\ (old = 0 \/ rollbackDev = "ReconcileStagingNoRollback")
              THEN [s |-> s1, left |-> 0, failed |-> TRUE]
              ELSE [s |-> SetVal(s1, r, old), left |-> 0, failed |-> TRUE]
    ELSE [s |-> Append1(SetVal(s, r, v), "ref", r, v), left |-> budget - 2, failed |-> FALSE]

InSync(s, r) == Status(s, r) \in {0, 1}

\* ReconcileStaging: refuses when policy or staging disagrees with its latest entry;
\* acts only when policy is ahead of staging (the diverged case is not modelled)
Reconcile(s, budget, crash, Dev) ==
    IF ~InSync(s, PolicyRef) \/ ~InSync(s, StagingRef) THEN [s |-> s, left |-> budget, failed |-> TRUE, refused |-> TRUE]
    ELSE IF s.val[PolicyRef] = 0 \/ s.val[PolicyRef] <= s.val[StagingRef]      \* staging equal or ahead: nothing to do
         THEN [s |-> s, left |-> budget, failed |-> FALSE, refused |-> FALSE]
    ELSE LET g == Segment(s, StagingRef, s.val[PolicyRef], budget, crash, "ReconcileStagingNoRollback", Dev) IN
         [s |-> g.s, left |-> g.left, failed |-> g.failed, refused |-> FALSE]

\* Run an operation with at most `budget` mutations completing (budget = 99: uninterrupted).
\* Returns [s, err]
Run(op, s, budget, crash, Dev) ==
    CASE op = "ref" -> IF budget = 0 THEN [s |-> s, err |-> TRUE] ELSE [s |-> Append1(s, "ref", MainRef, Fresh(s)), err |-> FALSE]
      [] op = "ann" -> IF budget = 0 THEN [s |-> s, err |-> TRUE] ELSE [s |-> Append1(s, "ann", "", 0), err |-> FALSE]
      [] op = "stage" -> LET g == Segment(s, StagingRef, Fresh(s), budget, crash, "FirstCommitNotRolledBack", Dev) IN [s |-> g.s, err |-> g.failed]
      [] op = "att"   -> LET g == Segment(s, AttRef, Fresh(s), budget, crash, "FirstCommitNotRolledBack", Dev) IN [s |-> g.s, err |-> g.failed]
      [] op = "reconcile" -> LET g == Reconcile(s, budget, crash, Dev) IN [s |-> g.s, err |-> g.failed]
      [] op = "apply" ->
            LET g == Reconcile(s, budget, crash, Dev) IN
            IF g.failed THEN [s |-> g.s, err |-> TRUE]
            ELSE IF g.s.val[StagingRef] = 0 THEN [s |-> g.s, err |-> TRUE]
            ELSE LET h == Segment(g.s, PolicyRef, g.s.val[StagingRef], g.left, crash, "FirstCommitNotRolledBack", Dev) IN
                 [s |-> h.s, err |-> h.failed]

NMuts(op, s) == CASE op \in {"ref", "ann"} -> 1 [] op \in {"stage", "att"} -> 2
                  [] op = "reconcile" -> 2
                  [] op = "apply" -> IF s.val[PolicyRef] > s.val[StagingRef] THEN 4 ELSE 2

\* ---- projection shared with the harness
Proj(s) == [chain |-> [i \in DOMAIN s.chain |-> <<s.chain[i].k, s.chain[i].ref, s.chain[i].num>>],
            st |-> [r \in Managed |-> Status(s, r)]]

(***************************************************************************)
(* Layer D on observed abstract states (pre, post, retry, clean are        *)
(* projections: chain of <<k, ref, num>>, st per managed ref; unch[r] says *)
(* whether ref r still has its pre-operation tip)                          *)
(***************************************************************************)
ValidChain(c) == /\ \A i \in 2..Len(c) : IF c[i][3] \in {0, 1} THEN c[i - 1][3] = 0 ELSE c[i - 1][3] = c[i][3] - 1
                 /\ \A i \in 1..Len(c) : c[i][1] \in {"ref", "ann", "prop"}
WholeEntries(pre, post, clean) == IsPrefix(pre, post) /\ IsPrefix(post, clean)

FaultOK(pre, post, unch, err, retryErr, retry, clean) ==
    IF ~err THEN post = clean                     \* the fault was harmless: the operation completed
    ELSE /\ ValidChain(post.chain)
         /\ WholeEntries(pre.chain, post.chain, clean.chain)
         /\ \A r \in Managed : unch[r] \/ post.st[r] = 1
         /\ ~retryErr
         /\ retry = clean

CrashOK(pre, post, clean) == ValidChain(post.chain) /\ WholeEntries(pre.chain, post.chain, clean.chain)
=============================================================================
