---------------------------- MODULE MC_PolicyApply ----------------------------
EXTENDS PolicyApply, Json
CONSTANTS MaxLen, Dev, EmitMod, EmitRes
VARIABLES st, hist

Signers == {"a", "b", "x"}
Ops == {[op |-> "Init", s |-> s] : s \in {"a"}}
       \cup {[op |-> o, s |-> s, k |-> k] : o \in {"AddRootKey", "RemoveRootKey"}, s \in Signers, k \in {"a", "b"}}
       \cup {[op |-> "UpdateRootThreshold", s |-> s, thr |-> t] : s \in {"a", "b", "x"}, t \in {0, 1, 2}}
       \cup {[op |-> "SignRoot", s |-> s] : s \in Signers}
       \cup {[op |-> o] : o \in {"Apply", "Discard", "TamperStaging", "TamperPolicy"}}

Init == st = Init0 /\ hist = <<>>
Next == /\ Len(hist) < MaxLen
        /\ \E o \in Ops : st' = Step(st, o, Dev).st /\ hist' = Append(hist, o)
Spec == Init /\ [][Next]_<<st, hist>>
View == st

\* C12: whatever Apply publishes stays verifiable; Apply never moves the policy when a ref is out of sync;
\* the policy only ever advances to a self-valid staged state; outsiders cannot edit the root
Published == Verifiable(st)
ApplySafe == \A o \in {[op |-> "Apply"]} : LET a == Step(st, o, Dev) IN
                a.ok => (st.ssync /\ st.psync /\ st.ff /\ SelfValid(st.staged) /\ a.st.applied = st.staged)
Guard == \A o \in Ops : (o.op \in {"AddRootKey", "RemoveRootKey", "UpdateRootThreshold"} /\ Step(st, o, Dev).ok) => o.s \in st.staged.pr

Weight == Len(hist) * 3 + Cardinality(st.staged.pr) * 5 + Cardinality(st.applied.pr) * 7 + st.napplied * 11 + (IF st.chain THEN 0 ELSE 13)
\* histories ending in an Apply that must be refused because a ref is out of sync (also before any policy was applied)
RefusedApply == hist[Len(hist)].op = "Apply" /\ (~st.ssync \/ ~st.psync) /\ Weight % 3 = EmitRes % 3
Emit == IF hist # <<>> /\ ((st.napplied >= 1 /\ Weight % EmitMod = EmitRes) \/ ~st.chain \/ RefusedApply)
        THEN PrintT(ToJson([t |-> "SCN", ops |-> hist])) ELSE TRUE
=============================================================================
