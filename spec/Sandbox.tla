------------------------------- MODULE Sandbox -------------------------------
(***************************************************************************)
(* The Lua hook sandbox (internal/luasandbox) -- C20.                      *)
(*                                                                         *)
(* (1) Environment.  The construction in NewLuaEnvironment is a sequence   *)
(* of steps on an abstract environment                                     *)
(*    [globals : name -> kind, tables : lib -> set of member names,        *)
(*     prot : set of protected library tables, strmeta : BOOLEAN]          *)
(* kinds: "fn" (function), "tbl" (table), "data".                          *)
(* Reach(env) is the set of paths ("name" or "lib.member") a script can    *)
(* reach: globals, members of reachable library tables, and the members of *)
(* the string table through the string metatable even when the global      *)
(* `string` is gone.  The member lists are those of gopher-lua v1.1.2.     *)
(*                                                                         *)
(* (2) Script outcome machine and (3) hook selection: see the operators    *)
(* Outcome and Selected.                                                   *)
(***************************************************************************)
EXTENDS Integers, Sequences, FiniteSets, TLC

BaseFns == {"_printregs", "assert", "collectgarbage", "dofile", "error", "getfenv", "getmetatable", "ipairs", "load", "loadfile",
            "loadstring", "module", "newproxy", "next", "pairs", "pcall", "print", "rawequal", "rawget", "rawset", "require",
            "select", "setfenv", "setmetatable", "tonumber", "tostring", "type", "unpack", "xpcall"}
BaseData == {"_GOPHER_LUA_VERSION", "_VERSION"}
LibMembers ==
    [table |-> {"concat", "getn", "insert", "maxn", "remove", "sort"},
     string |-> {"__index", "byte", "char", "dump", "find", "format", "gfind", "gmatch", "gsub", "len", "lower", "match", "rep",
                 "reverse", "sub", "upper"},
     math |-> {"abs", "acos", "asin", "atan2", "atan", "ceil", "cos", "cosh", "deg", "exp", "floor", "fmod", "frexp", "huge", "ldexp",
               "log10", "log", "max", "min", "mod", "modf", "pi", "pow", "rad", "random", "randomseed", "sin", "sinh", "sqrt", "tan", "tanh"},
     coroutine |-> {"create", "resume", "running", "status", "wrap", "yield"},
     package |-> {"config", "cpath", "loaded", "loaders", "loadlib", "path", "preload", "seeall"}]
Libs == DOMAIN LibMembers

\* what the sandbox promises to remove
ForbiddenGlobals == {"dofile", "load", "loadfile", "loadstring", "require", "module", "collectgarbage", "rawget", "rawset", "rawequal",
                     "setmetatable", "getmetatable", "_G", "os", "io", "debug", "package"}
ForbiddenMembers == {"string.rep", "string.dump", "math.randomseed"}
ProtectedLibs == {"string", "math", "coroutine", "table"}

Empty == [globals |-> {}, tables |-> [l \in Libs |-> {}], prot |-> {}]

\* construction steps
OpenBase(env)   == [env EXCEPT !.globals = @ \cup BaseFns \cup BaseData \cup {"_G"}]
OpenLib(env, l) == [env EXCEPT !.globals = @ \cup {l}, !.tables[l] = LibMembers[l]]
NilGlobal(env, n)   == [env EXCEPT !.globals = @ \ {n}]
NilMember(env, l, m) == [env EXCEPT !.tables[l] = @ \ {m}]
Protect(env, l) == IF l \in env.globals THEN [env EXCEPT !.prot = @ \cup {l}] ELSE env
Register(env, apis) == [env EXCEPT !.globals = @ \cup apis \cup {"hookParameters", "hookExitCode"}]

\* the construction as coded; `skip` is a set of step names left out (used to show the invariant has teeth)
Steps == {"nil:" \o n : n \in ForbiddenGlobals} \cup {"nilm:" \o m : m \in ForbiddenMembers} \cup {"prot:" \o l : l \in ProtectedLibs}
RECURSIVE NilAll(_, _, _)
NilAll(env, names, skip) == IF names = {} THEN env
                            ELSE LET n == CHOOSE x \in names : TRUE IN
                                 NilAll(IF ("nil:" \o n) \in skip THEN env ELSE NilGlobal(env, n), names \ {n}, skip)
Build(apis, skip) ==
    LET e1 == OpenLib(OpenLib(OpenLib(OpenLib(OpenBase(OpenLib(Empty, "package")), "table"), "string"), "math"), "coroutine")
        e2 == NilAll(e1, ForbiddenGlobals, skip)
        e3 == IF "nilm:string.rep" \in skip THEN e2 ELSE NilMember(e2, "string", "rep")
        e4 == IF "nilm:string.dump" \in skip THEN e3 ELSE NilMember(e3, "string", "dump")
        e5 == IF "nilm:math.randomseed" \in skip THEN e4 ELSE NilMember(e4, "math", "randomseed")
        RECURSIVE ProtAll(_, _)
        ProtAll(env, ls) == IF ls = {} THEN env ELSE LET l == CHOOSE x \in ls : TRUE IN
                                ProtAll(IF ("prot:" \o l) \in skip THEN env ELSE Protect(env, l), ls \ {l})
    IN Register(ProtAll(e5, ProtectedLibs), apis)

\* reachable paths
Reach(env) ==
    env.globals
    \cup UNION {{l \o "." \o m : m \in env.tables[l]} : l \in {x \in Libs : x \in env.globals}}
    \cup {"string." \o m : m \in env.tables["string"]}           \* through the string metatable: ("x"):m()

\* what may be reachable: pure library members, inert data, registered APIs
PureGlobals == (BaseFns \cup BaseData) \ ForbiddenGlobals
PurePaths(apis) ==
    PureGlobals \cup {"table", "string", "math", "coroutine"} \cup apis \cup {"hookParameters", "hookExitCode"}
    \cup (UNION {{l \o "." \o m : m \in LibMembers[l]} : l \in {"table", "string", "math", "coroutine"}} \ ForbiddenMembers)
ForbiddenPaths == ForbiddenGlobals \cup ForbiddenMembers \cup {"package." \o m : m \in LibMembers["package"]}

Confined(env, apis) ==
    /\ Reach(env) \cap ForbiddenPaths = {}
    /\ Reach(env) \subseteq PurePaths(apis)
    /\ \A l \in ProtectedLibs : l \in env.globals => l \in env.prot

(***************************************************************************)
(* (2) outcome of running a script with timeout T (seconds)                *)
(***************************************************************************)
\* program classes and what the sandbox must do with them
\*  [cls |-> "escape", ...]   tries to obtain a forbidden capability: must be denied (the value is nil / an error is raised)
\*  [cls |-> "write", ...]    tries to modify a library table: must raise
\*  [cls |-> "loop", ...]     never terminates on its own: must be stopped by the timeout
\*  [cls |-> "ret", v]        returns a value: number n => exit n; anything else => exit 1 (failed)
Expected(p) ==
    CASE p.cls = "escape" -> "denied"
      [] p.cls = "write"  -> "denied"
      [] p.cls = "loop"   -> "timeout"
      [] p.cls = "ret"    -> IF p.v \in {"number", "float", "negative"} THEN "exit:n" ELSE "exit:1"

\* observed: [res \in {"denied","timeout","exit:n","exit:1","escaped","hung"}, elapsedMs]
OutcomeOK(p, o, timeoutMs, epsMs) ==
    /\ o.res = Expected(p)
    /\ (p.cls = "loop" => o.elapsedMs <= timeoutMs + epsMs)

(***************************************************************************)
(* (3) hook selection: a principal is run exactly the hooks of the stage   *)
(* that the applied policy assigns to that principal                       *)
(***************************************************************************)
\* hooks are records [name, stages, pr]; keys belong to principals (a person may hold several keys); "" = nobody
Selected(hooks, stage, principal) == {h \in hooks : stage \in h.stages /\ principal \in h.pr}
KeyOwner == [k1 |-> "p1", k2 |-> "p2", k3a |-> "P3", k3b |-> "P3", kx |-> ""]
\* what invoking the hooks of `stage` with a signer holding `key` must do
SelResult(hooks, stage, key) ==
    LET who == KeyOwner[key] sel == {h.name : h \in Selected(hooks, stage, who)} IN
    IF who = "" THEN [res |-> "unknown", ran |-> {}]
    ELSE IF sel = {} THEN [res |-> "nohooks", ran |-> {}]
    ELSE [res |-> "ok", ran |-> sel]
=============================================================================
