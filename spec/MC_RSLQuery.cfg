SPECIFICATION Spec
CONSTANTS
  MaxLen = 3
  Dev = {}
  Tamper = TRUE
  EmitLen = 0
INVARIANT ReadersRefineScan
CONSTRAINT Emit
CHECK_DEADLOCK FALSE
