----------------------------- MODULE MC_AutoSkip -----------------------------
EXTENDS AutoSkip, Json, SequencesExt
CONSTANTS MaxLen, Dev
VARIABLE log

Commits == {[e |-> e, n |-> n] : e \in 1..2, n \in 1..2}
Entries(l) == {[k |-> k, ref |-> r, t |-> c, tg |-> {}] : k \in {"ref", "prop"}, r \in {"main", "feat"}, c \in Commits}
              \cup {[k |-> "ann", ref |-> "", t |-> [e |-> 0, n |-> 0], tg |-> {i}] : i \in {j \in DOMAIN l : l[j].k = "ref"}}
Init == log = <<>>
Next == Len(log) < MaxLen /\ \E e \in Entries(log) : log' = Append(log, e)
Spec == Init /\ [][Next]_log

Guarantees == \A r \in {"main", "feat"} : AppendsAtMostOne(log, r) /\ NamesOnlyOwnRewritten(log, r)
\* the deviation is visible: with it, some log gets entries of another reference revoked
Harmless == \A r \in {"main", "feat"} : AutoSkip(log, r, Dev) = AutoSkip(log, r, {})
EJ(e) == [k |-> e.k, ref |-> e.ref, e |-> e.t.e, n |-> e.t.n, tg |-> SetToSeq(e.tg)]
Emit == IF log # <<>> /\ (\E r \in {"main", "feat"} : Cardinality(Upd(log, r)) >= 2)
        THEN PrintT(ToJson([t |-> "SCN", log |-> [i \in DOMAIN log |-> EJ(log[i])]])) ELSE TRUE
=============================================================================
