----------------------------- MODULE PolicyApply -----------------------------
(***************************************************************************)
(* The policy writer side: root-of-trust edits through the repository API, *)
(* staging, Apply, Discard, tampering with the refs (C12).                 *)
(*                                                                         *)
(* A root is [pr, thr, sigs]: root principals, threshold, keys that signed *)
(* the current root envelope.  State st:                                   *)
(*   staged, applied : root or NoRoot                                      *)
(*   ssync, psync    : the staging / policy ref equals the target of its   *)
(*                     latest log entry (FALSE after tampering; an edit    *)
(*                     through the API commits on top of the staging tip   *)
(*                     and records it, which brings staging back in sync)  *)
(*   ff              : the staged commit descends from the applied one     *)
(*   chain           : every applied policy so far is chained to its       *)
(*                     predecessor (what LoadCurrentState(policy) checks)  *)
(*   napplied        : number of policy entries in the log                 *)
(* Step(st, op, Dev) returns [st, ok].                                     *)
(* Deviation "ApplyPublishesUnchainedRoot": Apply self-verifies the staged *)
(* state but never checks its root against the applied root's threshold.   *)
(***************************************************************************)
EXTENDS Integers, FiniteSets, Sequences, TLC

NoRoot == [pr |-> {}, thr |-> 0, sigs |-> {}]
Init0 == [staged |-> NoRoot, applied |-> NoRoot, ssync |-> TRUE, psync |-> TRUE, ff |-> TRUE, chain |-> TRUE, napplied |-> 0]

Exists(r) == r.pr # {}
SelfValid(r) == Exists(r) /\ Cardinality(r.sigs \cap r.pr) >= r.thr
Chained(prev, new) == ~Exists(prev) \/ Cardinality(new.sigs \cap prev.pr) >= prev.thr     \* the first policy is trusted on first use

Ok(st) == [st |-> st, ok |-> TRUE]
No(st) == [st |-> st, ok |-> FALSE]

Step(st, op, Dev) ==
    CASE op.op = "Init" ->
           IF Exists(st.staged) \/ Exists(st.applied) THEN No(st)
           ELSE Ok([st EXCEPT !.staged = [pr |-> {op.s}, thr |-> 1, sigs |-> {op.s}]])
      [] op.op = "AddRootKey" ->
           IF ~Exists(st.staged) \/ op.s \notin st.staged.pr THEN No(st)
           ELSE Ok([st EXCEPT !.staged = [pr |-> @.pr \cup {op.k}, thr |-> @.thr, sigs |-> {op.s}], !.ssync = TRUE])
      [] op.op = "RemoveRootKey" ->
           IF ~Exists(st.staged) \/ op.s \notin st.staged.pr \/ Cardinality(st.staged.pr) <= st.staged.thr THEN No(st)
           ELSE Ok([st EXCEPT !.staged = [pr |-> @.pr \ {op.k}, thr |-> @.thr, sigs |-> {op.s}], !.ssync = TRUE])
      [] op.op = "UpdateRootThreshold" ->
           IF ~Exists(st.staged) \/ op.s \notin st.staged.pr \/ op.thr <= 0 \/ Cardinality(st.staged.pr) < op.thr THEN No(st)
           ELSE Ok([st EXCEPT !.staged = [pr |-> @.pr, thr |-> op.thr, sigs |-> {op.s}], !.ssync = TRUE])
      [] op.op = "SignRoot" ->
           IF ~Exists(st.staged) THEN No(st) ELSE Ok([st EXCEPT !.staged.sigs = @ \cup {op.s}, !.ssync = TRUE])
      [] op.op = "Apply" ->
           IF ~st.ssync \/ ~st.psync THEN No(st)                          \* a ref disagrees with its latest log entry
           ELSE IF ~Exists(st.staged) THEN No(st)
           ELSE IF ~st.ff THEN No(st)                                     \* staging does not descend from the applied policy
           ELSE IF ~SelfValid(st.staged) THEN No(st)
           ELSE IF "ApplyPublishesUnchainedRoot" \notin Dev /\ ~Chained(st.applied, st.staged) THEN No(st)
           ELSE Ok([st EXCEPT !.applied = st.staged, !.chain = st.chain /\ Chained(st.applied, st.staged), !.napplied = @ + 1])
      [] op.op = "Discard" ->
           Ok([st EXCEPT !.staged = st.applied, !.ssync = (Exists(st.applied) /\ st.psync) \/ (~Exists(st.applied) /\ ~Exists(st.staged) /\ st.ssync), !.ff = TRUE])
      [] op.op = "TamperStaging" ->
           IF ~Exists(st.staged) THEN No(st) ELSE Ok([st EXCEPT !.ssync = FALSE])
      [] op.op = "TamperPolicy" ->
           IF ~Exists(st.applied) THEN No(st) ELSE Ok([st EXCEPT !.psync = FALSE])

\* what subsequent verification needs: the applied history loads
Verifiable(st) == st.chain

RECURSIVE Run(_, _, _)
Run(st, ops, Dev) == IF ops = <<>> THEN <<>> ELSE LET a == Step(st, Head(ops), Dev) IN <<a>> \o Run(a.st, Tail(ops), Dev)
=============================================================================
