SPECIFICATION Spec
CONSTANTS
  MaxBody = 4
  EmitAll = 2
  EmitMod = 29
  EmitRes = 1
INVARIANT IRefinesD
INVARIANT Idem
INVARIANT RoundTrip
CONSTRAINT Emit
CHECK_DEADLOCK FALSE
