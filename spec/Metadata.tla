------------------------------ MODULE Metadata ------------------------------
(***************************************************************************)
(* Policy metadata under edits (internal/tuf/v01, v02) -- C13.             *)
(*                                                                         *)
(* A rule file is  [pr : set of defined principals,                        *)
(*                  rules : Seq([name, pr, thr])]   (allow rule included)  *)
(* A root is       [pr, root : [ids, thr], tgt : [on, ids, thr],           *)
(*                  globals : Seq([name, kind, thr]),                      *)
(*                  hooks : [pre : Seq(name), push : Seq(name)],           *)
(*                  hinit : the hooks table has been allocated]            *)
(*                                                                         *)
(* An edit e is a record [op, ...]; ApplyF / ApplyR give [m, ok]: the new  *)
(* metadata and whether the mutator accepted (ok = FALSE: it returned an   *)
(* error).  Written functionally so that TLC explores edit sequences and   *)
(* trace validation replays a recorded sequence with the same definition.  *)
(*                                                                         *)
(* Layer D: WFFile / WFRoot are inductive over accepted edits; a refused   *)
(* edit leaves the metadata unchanged.                                     *)
(* Deviations:                                                             *)
(*  "AddHookPartialOnError"  AddHook with several stages appends to the    *)
(*       earlier stages before failing on a later one (as coded)           *)
(*  "DuplicatePrincipalsMeetThreshold" AddRule / UpdateRule compare the    *)
(*       threshold with the LENGTH of the principal list, so a list that   *)
(*       repeats a principal passes although the rule cannot be met        *)
(***************************************************************************)
EXTENDS Integers, Sequences, FiniteSets, SequencesExt, FiniteSetsExt, TLC

Allow == [name |-> "gittuf-allow-rule", pr |-> {}, thr |-> 1]
Reserved(n) == n \in {"gittuf-allow-rule", "gittuf-x"}         \* names carrying the reserved prefix (over the model's alphabet)
Ok(m)  == [m |-> m, ok |-> TRUE]
No(m)  == [m |-> m, ok |-> FALSE]

NewFile == [pr |-> {}, rules |-> <<Allow>>, pinit |-> FALSE]   \* pinit: the principals table has been allocated
NewRoot(p) == [pr |-> {p}, root |-> [ids |-> {p}, thr |-> 1], tgt |-> [on |-> FALSE, ids |-> {}, thr |-> 0],
               globals |-> <<>>, hooks |-> [pre |-> <<>>, push |-> <<>>], hinit |-> FALSE,
               multi |-> [ctl |-> FALSE, cr |-> <<>>, nr |-> <<>>],     \* controller flag, controller / network repositories
               pd |-> <<>>]                                           \* propagation directives [name, spec]

(***************************************************************************)
(* Rule file edits                                                         *)
(***************************************************************************)
RuleArgsOK(f, name, prl, thr, Dev) ==
    /\ ~Reserved(name)
    /\ ToSet(prl) \subseteq f.pr
    /\ thr > 0
    /\ (IF "DuplicatePrincipalsMeetThreshold" \in Dev THEN Len(prl) ELSE Cardinality(ToSet(prl))) >= thr

ApplyF(f, e, v01, Dev) ==
    CASE e.op = "AddRule" ->
           IF ~RuleArgsOK(f, e.name, e.prl, e.thr, Dev) THEN No(f)
           ELSE Ok([f EXCEPT !.rules = Front(f.rules) \o <<[name |-> e.name, pr |-> ToSet(e.prl), thr |-> e.thr], Allow>>])
      [] e.op = "UpdateRule" ->
           IF ~RuleArgsOK(f, e.name, e.prl, e.thr, Dev) THEN No(f)
           ELSE LET upTo == IF \E i \in DOMAIN f.rules : f.rules[i].name = Allow.name
                            THEN Min({i \in DOMAIN f.rules : f.rules[i].name = Allow.name}) - 1 ELSE Len(f.rules)
                    kept == [i \in 1..upTo |-> IF f.rules[i].name = e.name THEN [name |-> e.name, pr |-> ToSet(e.prl), thr |-> e.thr] ELSE f.rules[i]]
                IN Ok([f EXCEPT !.rules = kept \o <<Allow>>])
      [] e.op = "RemoveRule" ->
           IF Reserved(e.name) THEN No(f)
           ELSE Ok([f EXCEPT !.rules = SelectSeq(f.rules, LAMBDA r : r.name # e.name)])
      [] e.op = "ReorderRules" ->
           LET cur == {f.rules[i].name : i \in DOMAIN f.rules} \ {Allow.name}
               spec == ToSet(e.names) IN
           IF Len(e.names) # Cardinality(spec) THEN No(f)             \* a name twice
           ELSE IF spec # cur THEN No(f)                              \* unknown, missing or the allow rule
           ELSE Ok([f EXCEPT !.rules = [i \in DOMAIN e.names |->
                                          f.rules[Max({j \in DOMAIN f.rules : f.rules[j].name = e.names[i]})]] \o <<Allow>>])
      [] e.op = "AddPrincipal" -> Ok([f EXCEPT !.pr = @ \cup {e.p}, !.pinit = TRUE])
      [] e.op = "RemovePrincipal" ->
           IF ~f.pinit THEN No(f)
           ELSE IF e.p = "" /\ ~v01 THEN No(f)
           ELSE IF \E i \in DOMAIN f.rules : e.p \in f.rules[i].pr THEN No(f)
           ELSE Ok([f EXCEPT !.pr = @ \ {e.p}])

WFFile(f) ==
    /\ f.rules # <<>> /\ f.rules[Len(f.rules)].name = Allow.name                  \* ends with the allow rule
    /\ \A i \in 1..(Len(f.rules) - 1) : ~Reserved(f.rules[i].name)                \* ... which occurs nowhere else; no reserved user names
    /\ \A i \in 1..(Len(f.rules) - 1) : /\ f.rules[i].thr >= 1
                                        /\ Cardinality(f.rules[i].pr) >= f.rules[i].thr
                                        /\ f.rules[i].pr \subseteq f.pr

(***************************************************************************)
(* Root edits                                                              *)
(***************************************************************************)
HasName(seq, n) == \E i \in DOMAIN seq : seq[i] = n
GName(seq, n)   == \E i \in DOMAIN seq : seq[i].name = n

RECURSIVE AddHookStages(_, _, _, _)
\* as coded: stage by stage, failing at the first stage that already has the name
AddHookStages(h, stages, name, partial) ==
    IF stages = <<>> THEN Ok(h)
    ELSE LET s == Head(stages) IN
         IF HasName(h[s], name) THEN No(h)
         ELSE AddHookStages([h EXCEPT ![s] = Append(@, name)], Tail(stages), name, partial)

ApplyR(r, e, Dev) ==
    CASE e.op = "AddRootPrincipal" -> Ok([r EXCEPT !.pr = @ \cup {e.p}, !.root.ids = @ \cup {e.p}])
      [] e.op = "DeleteRootPrincipal" ->
           IF Cardinality(r.root.ids) <= r.root.thr THEN No(r) ELSE Ok([r EXCEPT !.root.ids = @ \ {e.p}])
      [] e.op = "UpdateRootThreshold" ->
           IF e.thr <= 0 \/ Cardinality(r.root.ids) < e.thr THEN No(r) ELSE Ok([r EXCEPT !.root.thr = e.thr])
      [] e.op = "AddPrimaryRuleFilePrincipal" ->
           Ok([r EXCEPT !.pr = @ \cup {e.p}, !.tgt = IF r.tgt.on THEN [@ EXCEPT !.ids = @ \cup {e.p}] ELSE [on |-> TRUE, ids |-> {e.p}, thr |-> 1]])
      [] e.op = "DeletePrimaryRuleFilePrincipal" ->
           IF e.p = "" \/ ~r.tgt.on \/ Cardinality(r.tgt.ids) <= r.tgt.thr THEN No(r) ELSE Ok([r EXCEPT !.tgt.ids = @ \ {e.p}])
      [] e.op = "UpdatePrimaryRuleFileThreshold" ->
           IF ~r.tgt.on \/ e.thr <= 0 \/ Cardinality(r.tgt.ids) < e.thr THEN No(r) ELSE Ok([r EXCEPT !.tgt.thr = e.thr])
      [] e.op = "AddGlobalRule" ->
           IF (e.kind = "threshold" /\ e.thr <= 0) \/ GName(r.globals, e.name) THEN No(r)
           ELSE Ok([r EXCEPT !.globals = Append(@, [name |-> e.name, kind |-> e.kind, thr |-> e.thr])])
      [] e.op = "UpdateGlobalRule" ->
           IF (e.kind = "threshold" /\ e.thr <= 0) \/ r.globals = <<>> THEN No(r)
           ELSE IF ~GName(r.globals, e.name) THEN No(r)
           ELSE IF \E i \in DOMAIN r.globals : r.globals[i].name = e.name /\ r.globals[i].kind # e.kind THEN No(r)
           ELSE Ok([r EXCEPT !.globals = [i \in DOMAIN r.globals |-> IF r.globals[i].name = e.name
                                                                      THEN [name |-> e.name, kind |-> e.kind, thr |-> e.thr] ELSE r.globals[i]]])
      [] e.op = "DeleteGlobalRule" ->
           IF r.globals = <<>> THEN No(r) ELSE Ok([r EXCEPT !.globals = SelectSeq(@, LAMBDA g : g.name # e.name)])
      [] e.op = "AddHook" ->
           IF "AddHookPartialOnError" \in Dev
           THEN LET a == AddHookStages(r.hooks, e.stages, e.name, TRUE) IN [m |-> [r EXCEPT !.hooks = a.m, !.hinit = TRUE], ok |-> a.ok]
           ELSE IF \E x \in DOMAIN e.stages : HasName(r.hooks[e.stages[x]], e.name) THEN No([r EXCEPT !.hinit = TRUE])
                ELSE LET a == AddHookStages(r.hooks, e.stages, e.name, FALSE) IN [m |-> [r EXCEPT !.hooks = a.m, !.hinit = TRUE], ok |-> a.ok]
      [] e.op = "RemoveHook" ->
           IF ~r.hinit THEN No(r) ELSE
           Ok([r EXCEPT !.hooks = [s \in {"pre", "push"} |-> IF HasName(e.stages, s) THEN SelectSeq(r.hooks[s], LAMBDA n : n # e.name) ELSE r.hooks[s]]])
      \* propagation directives: duplicates are judged by what a directive says (spec), updates and deletions go by name
      [] e.op = "AddPropagationDirective" ->
           IF \E i \in DOMAIN r.pd : r.pd[i].spec = e.spec THEN No(r) ELSE Ok([r EXCEPT !.pd = Append(@, [name |-> e.name, spec |-> e.spec])])
      [] e.op = "UpdatePropagationDirective" ->
           IF ~\E i \in DOMAIN r.pd : r.pd[i].name = e.name THEN No(r)
           ELSE Ok([r EXCEPT !.pd = [i \in DOMAIN r.pd |-> IF r.pd[i].name = e.name THEN [name |-> e.name, spec |-> e.spec] ELSE r.pd[i]]])
      [] e.op = "DeletePropagationDirective" ->
           IF ~\E i \in DOMAIN r.pd : r.pd[i].name = e.name THEN No(r)
           ELSE LET k == CHOOSE i \in DOMAIN r.pd : r.pd[i].name = e.name /\ \A j \in DOMAIN r.pd : r.pd[j].name = e.name => i <= j
                IN Ok([r EXCEPT !.pd = SubSeq(@, 1, k - 1) \o SubSeq(@, k + 1, Len(@))])
      [] e.op = "EnableController"  -> Ok([r EXCEPT !.multi.ctl = TRUE])
      [] e.op = "DisableController" -> Ok([r EXCEPT !.multi.ctl = FALSE])
      [] e.op = "AddControllerRepository" ->
           IF HasName(r.multi.cr, e.name) THEN No(r) ELSE Ok([r EXCEPT !.multi.cr = Append(@, e.name)])
      [] e.op = "AddNetworkRepository" ->
           IF ~r.multi.ctl \/ HasName(r.multi.nr, e.name) THEN No(r) ELSE Ok([r EXCEPT !.multi.nr = Append(@, e.name)])

NoDup(seq) == \A i, j \in DOMAIN seq : i # j => seq[i] # seq[j]
WFRoot(r) ==
    /\ r.root.thr >= 1 /\ Cardinality(r.root.ids) >= r.root.thr /\ r.root.ids \subseteq r.pr
    /\ r.tgt.on => (r.tgt.thr >= 1 /\ Cardinality(r.tgt.ids) >= r.tgt.thr /\ r.tgt.ids \subseteq r.pr)
    /\ \A i, j \in DOMAIN r.globals : i # j => r.globals[i].name # r.globals[j].name
    /\ \A i \in DOMAIN r.globals : r.globals[i].kind = "threshold" => r.globals[i].thr >= 1
    /\ NoDup(r.hooks.pre) /\ NoDup(r.hooks.push)
    /\ NoDup(r.multi.cr) /\ NoDup(r.multi.nr)

ViewF(f) == [pr |-> f.pr, rules |-> f.rules]
\* what a query can observe of a root (hinit is allocation state, not observable)
\* (the network repositories of a root that is not a controller are kept but not shown)
ViewR(r) == [pr |-> r.pr, root |-> r.root, tgt |-> r.tgt, globals |-> r.globals, hooks |-> r.hooks,
             multi |-> [r.multi EXCEPT !.nr = IF r.multi.ctl THEN @ ELSE <<>>], pd |-> r.pd]

\* replay of a recorded edit sequence: sequence of [m, ok] after each edit
RECURSIVE RunF(_, _, _, _)
RunF(f, es, v01, Dev) == IF es = <<>> THEN <<>> ELSE LET a == ApplyF(f, Head(es), v01, Dev) IN <<a>> \o RunF(a.m, Tail(es), v01, Dev)
RECURSIVE RunR(_, _, _)
RunR(r, es, Dev) == IF es = <<>> THEN <<>> ELSE LET a == ApplyR(r, Head(es), Dev) IN <<a>> \o RunR(a.m, Tail(es), Dev)
=============================================================================
