-------------------------- MODULE Trace_Delegations --------------------------
(***************************************************************************)
(* Trace validation for C06: a line is one delegation graph materialised   *)
(* as real tufv01 / tufv02 rule files (git: or file: patterns), loaded     *)
(* with LoadStateFromCommit, and the verifiers FindVerifiersForPath        *)
(* returned for each path of the covering set (name, threshold,            *)
(* principals).                                                            *)
(***************************************************************************)
EXTENDS Delegations, Json

CONSTANTS Known, AsBuilt
TL == ndJsonDeserialize("trace.ndjson")
VARIABLE l

ToS(seq) == {seq[x] : x \in DOMAIN seq}
G(scn) == [f \in ToS(scn.files) |-> [i \in DOMAIN scn.g[f] |->
              [name |-> scn.g[f][i].name, pat |-> scn.g[f][i].pat, pr |-> ToS(scn.g[f][i].pr), thr |-> scn.g[f][i].thr, term |-> scn.g[f][i].term]]]

\* a verifier as observed / as the rule occurrence prescribes
VerOf(g, occ) == [name |-> g[occ[1]][occ[2]].name, thr |-> g[occ[1]][occ[2]].thr, pr |-> g[occ[1]][occ[2]].pr]
ObsVer(v) == [name |-> v.name, thr |-> v.thr, pr |-> ToS(v.pr)]

\* multiset equality of the observed verifiers with the prescribed occurrences
SameBag(obsSeq, occSet, g) ==
    /\ Len(obsSeq) = Cardinality(occSet)
    /\ \E f \in [DOMAIN obsSeq -> occSet] :
          /\ \A i, j \in DOMAIN obsSeq : i # j => f[i] # f[j]
          /\ \A i \in DOMAIN obsSeq : ObsVer(obsSeq[i]) = VerOf(g, f[i])

DOK(scn, obs) ==
    LET g == G(scn) IN
    IF obs.load = "dup" THEN ~LoadOK(g)                     \* refusal is acceptable only for duplicated names
    ELSE /\ obs.load = "ok" /\ ~obs.timeout
         /\ \A x \in Paths : SameBag(obs.walks[x], Consulted(g, x), g)

Conform(scn, obs) ==
    LET g == G(scn) IN
    IF obs.load = "dup" THEN ~LoadOK(g)
    ELSE LoadOK(g) /\ \A x \in Paths :
            LET w == WalkImpl(g, x).out IN
            Len(w) = Len(obs.walks[x]) /\ \A i \in DOMAIN w : ObsVer(obs.walks[x][i]) = VerOf(g, w[i])

Classify(scn, obs) ==
    IF obs.load \in {"panic", "setup"} THEN [cls |-> "violation", why |-> obs.load]
    ELSE IF obs.load = "ok" /\ ~LoadOK(G(scn)) /\ DOK(scn, obs) THEN [cls |-> "safe", why |-> "duplicate rule names were loaded"]
    ELSE IF obs.load \in {"err", "walkerr"} THEN [cls |-> "safe", why |-> "policy refused or walk failed with an error (nothing consulted)"]
    ELSE IF DOK(scn, obs) THEN (IF Conform(scn, obs) THEN [cls |-> "conform"] ELSE [cls |-> "safe", why |-> "order differs from the coded walk"])
    ELSE [cls |-> "violation", why |-> "consulted rules differ from the documented walk"]

Init == l = 1
Next == /\ l <= Len(TL)
        /\ PrintT(ToJson([t |-> "CLS", id |-> TL[l].id, r |-> Classify(TL[l].scn, TL[l].obs), load |-> TL[l].obs.load,
                          nt |-> (\E x \in Paths : TL[l].obs.load = "ok" /\ Len(TL[l].obs.walks[x]) > 1)]))
        /\ l' = l + 1
Spec == Init /\ [][Next]_l
=============================================================================
