------------------------------ MODULE Writers ------------------------------
(***************************************************************************)
(* RSL writers at the granularity of the storage calls that read or write  *)
(* a reference ("gates"): GetReference, the tip read inside Commit, the    *)
(* compare-and-set that ends Commit, SetReference/ResetDueToError.  Object *)
(* reads and writes commute (objects are immutable) and are not steps.     *)
(*                                                                         *)
(* Jobs (one public recording operation each):                             *)
(*   [op |-> "ref",  ref, t]            ReferenceEntry.Commit              *)
(*   [op |-> "prop", ref, t, up]        PropagationEntry.Commit            *)
(*   [op |-> "ann",  tg, skip]          AnnotationEntry.Commit (tg: Seq of *)
(*                                      positions; 0 = not an RSL entry)   *)
(*   [op |-> "branch", ref]             State.Commit / Attestations.Commit *)
(*        commit on a gittuf-managed branch ref, then its reference entry, *)
(*        with reset of the branch when the entry cannot be written        *)
(*   [op |-> "apply"]                   policy.Apply: fast-forward the     *)
(*        policy ref to the staged state and record its reference entry    *)
(*        (modelled as one atomic step; used in sequential histories only) *)
(*                                                                         *)
(* Program of an entry writer (setEntryNumber; commitEntry):               *)
(*   r1  GetReference(RSL)      numBase := number of the tip read          *)
(*   r2  Commit: read tip       parent  := tip                             *)
(*   r3  Commit: compare-and-set  append iff tip = parent                  *)
(* "branch" prefixes  b1 GetReference(ref), b2 Commit: read tip,           *)
(* b3 compare-and-set, and on failure of the entry  b4 ResetDueToError.    *)
(*                                                                         *)
(* The machine is written functionally: the whole state is one record st   *)
(* and Apply(st, w, Dev) is the (unique) next step of writer w, so that    *)
(* the same definition serves TLC's exploration of all interleavings and   *)
(* the replay of one recorded schedule (RunSched) in trace validation.     *)
(*                                                                         *)
(* Deviations (Dev):                                                       *)
(*   "StaleTipNumbering"        number taken from the r1 read, parent from *)
(*                              the later r2 read (as coded)               *)
(*   "FirstCommitNotRolledBack" branch ref not restored when it did not    *)
(*                              exist before (as coded)                    *)
(***************************************************************************)
EXTENDS RSL

BranchRefs == {StagingRef, AttRef, PolicyRef}
Loc0 == [numBase |-> 0, parent |-> 0, orig |-> 0, bpar |-> 0, bnew |-> 0]

\* st = [jobs, chain, bref, pc, jix, loc, res, nextVal]
InitState(ws, c) ==
    [jobs |-> [w \in ws |-> <<>>], chain |-> c, bref |-> [r \in BranchRefs |-> 0],
     pc |-> [w \in ws |-> "idle"], jix |-> [w \in ws |-> 1], loc |-> [w \in ws |-> Loc0],
     res |-> [w \in ws |-> <<>>], nextVal |-> 100]

TipNum(c, pos) == IF pos = 0 THEN 0 ELSE c[pos].num
JobOf(st, w) == st.jobs[w][st.jix[w]]

NewEntry(st, w, num) ==
    LET jb == JobOf(st, w) j == st.jix[w] IN
    CASE jb.op = "ref" ->
           [k |-> "ref", ref |-> jb.ref, t |-> jb.t, up |-> "", tg |-> <<>>, skip |-> FALSE, num |-> num, xp |-> FALSE, w |-> w, j |-> j]
      [] jb.op = "prop" ->
           [k |-> "prop", ref |-> jb.ref, t |-> jb.t, up |-> jb.up, tg |-> <<>>, skip |-> FALSE, num |-> num, xp |-> FALSE, w |-> w, j |-> j]
      [] jb.op = "ann" ->
           [k |-> "ann", ref |-> "", t |-> 0, up |-> "", tg |-> jb.tg, skip |-> jb.skip, num |-> num, xp |-> FALSE, w |-> w, j |-> j]
      [] jb.op = "branch" ->
           [k |-> "ref", ref |-> jb.ref, t |-> st.loc[w].bnew, up |-> "", tg |-> <<>>, skip |-> FALSE, num |-> num, xp |-> FALSE, w |-> w, j |-> j]

Finish(st, w, r) ==
    [st EXCEPT !.res[w] = Append(@, r), !.jix[w] = @ + 1, !.pc[w] = "idle", !.loc[w] = Loc0]

\* an annotation is refused unless every identifier names a well-formed entry
AnnTargetsOK(st, jb) == \A x \in DOMAIN jb.tg : jb.tg[x] \in 1..Len(st.chain) /\ st.chain[jb.tg[x]].k # "garb"

CanStep(st, w) == st.pc[w] # "idle" \/ st.jix[w] <= Len(st.jobs[w])

\* the label of the step writer w would take next (what the schedule records)
Label(st, w) ==
    LET p == st.pc[w] IN
    CASE p = "idle" -> IF JobOf(st, w).op = "ann" /\ ~AnnTargetsOK(st, JobOf(st, w)) THEN "refuse" ELSE "start"
      [] p = "r3"   -> IF Len(st.chain) = st.loc[w].parent THEN "r3ok" ELSE "r3fail"
      [] p = "b3"   -> IF st.bref[JobOf(st, w).ref] = st.loc[w].bpar THEN "b3ok" ELSE "b3fail"
      [] OTHER      -> p

Apply(st, w, Dev) ==
    LET p == st.pc[w] jb == JobOf(st, w) IN
    CASE p = "idle" ->
           IF jb.op = "ann" /\ ~AnnTargetsOK(st, jb) THEN Finish(st, w, "fail")
           ELSE IF jb.op = "branch" THEN [st EXCEPT !.pc[w] = "b1"]
           ELSE IF jb.op = "apply" THEN
                IF st.bref[StagingRef] = 0 THEN Finish(st, w, "fail")      \* nothing staged
                ELSE Finish([st EXCEPT !.bref[PolicyRef] = st.bref[StagingRef],
                                       !.chain = Append(@, [k |-> "ref", ref |-> PolicyRef, t |-> st.bref[StagingRef], up |-> "",
                                                            tg |-> <<>>, skip |-> FALSE, num |-> TipNum(st.chain, Len(st.chain)) + 1,
                                                            xp |-> FALSE, w |-> w, j |-> st.jix[w]])], w, "ok")
           ELSE [st EXCEPT !.pc[w] = "r1"]
      [] p = "r1" -> [st EXCEPT !.loc[w].numBase = TipNum(st.chain, Len(st.chain)), !.pc[w] = "r2"]
      [] p = "r2" -> [st EXCEPT !.loc[w].parent = Len(st.chain),
                                !.loc[w].numBase = IF "StaleTipNumbering" \in Dev THEN @ ELSE TipNum(st.chain, Len(st.chain)),
                                !.pc[w] = "r3"]
      [] p = "r3" ->
           IF Len(st.chain) = st.loc[w].parent
           THEN Finish([st EXCEPT !.chain = Append(@, NewEntry(st, w, st.loc[w].numBase + 1))], w, "ok")
           ELSE IF jb.op = "branch" /\ (st.loc[w].orig # 0 \/ "FirstCommitNotRolledBack" \notin Dev)
                THEN [st EXCEPT !.pc[w] = "b4"]
                ELSE Finish(st, w, "fail")
      [] p = "b1" -> [st EXCEPT !.loc[w].orig = st.bref[jb.ref], !.pc[w] = "b2"]
      [] p = "b2" -> [st EXCEPT !.loc[w].bpar = st.bref[jb.ref], !.pc[w] = "b3"]
      [] p = "b3" ->
           IF st.bref[jb.ref] = st.loc[w].bpar
           THEN [st EXCEPT !.bref[jb.ref] = st.nextVal, !.loc[w].bnew = st.nextVal, !.nextVal = @ + 1, !.pc[w] = "r1"]
           ELSE Finish(st, w, "fail")
      [] p = "b4" ->   \* ResetDueToError: force the branch back (ideal: delete when it did not exist)
           Finish([st EXCEPT !.bref[jb.ref] = st.loc[w].orig], w, "fail")

\* replay of a recorded schedule << <<w, label>>, ... >>: the final state; pc is
\* "stuck" everywhere when the schedule is not a behaviour of the machine
RECURSIVE RunSched(_, _, _)
RunSched(st, sched, Dev) ==
    IF sched = <<>> THEN st
    ELSE LET w == sched[1][1] lbl == sched[1][2] IN
         IF ~CanStep(st, w) \/ Label(st, w) # lbl
         THEN [st EXCEPT !.pc = [x \in DOMAIN st.pc |-> "stuck"]]
         ELSE RunSched(Apply(st, w, Dev), Tail(sched), Dev)

(***************************************************************************)
(* Properties (C03, C17) as predicates of a log c whose entries carry the  *)
(* writer w and job index j that produced them ("" / 0 = initial entry)    *)
(***************************************************************************)
Numbering(c)    == \A i \in 2..Len(c) : NumOK(c, i)
FirstNum(c)     == c # <<>> => c[1].num \in {0, 1}
NoDupNumbers(c) == \A i, j \in 1..Len(c) : (i # j /\ c[i].num # 0) => c[i].num # c[j].num

Written(c, w, j) == {i \in 1..Len(c) : c[i].w = w /\ c[i].j = j}
ExactlyOnce(c, res) ==
    \A w \in DOMAIN res : \A j \in 1..Len(res[w]) :
        Cardinality(Written(c, w, j)) = (IF res[w][j] = "ok" THEN 1 ELSE 0)
NoGhost(c, res, jobs) == \A w \in DOMAIN res : \A j \in (Len(res[w]) + 1)..Len(jobs[w]) : Written(c, w, j) = {}

\* every reader walks the whole log
Walkable(c) == c # <<>> => WalkFirst(c, "").e \notin {EInvalid, EBranch}

\* annotation guard: a recorded annotation names only earlier, well-formed entries
AnnGuard(c) == \A i \in 1..Len(c) : (IsAnn(c[i]) /\ c[i].w # "") =>
                   \A x \in DOMAIN c[i].tg : c[i].tg[x] \in 1..(i - 1) /\ c[c[i].tg[x]].k # "garb"

LogOK(c, res, jobs) == /\ Numbering(c) /\ FirstNum(c) /\ NoDupNumbers(c) /\ ExactlyOnce(c, res)
                       /\ NoGhost(c, res, jobs) /\ Walkable(c) /\ AnnGuard(c)

\* a managed branch matches its latest log entry (sequential histories only: C03 / C16)
LatestFor(c, r) == LET S == {i \in 1..Len(c) : IsUpd(c[i]) /\ c[i].ref = r} IN IF S = {} THEN 0 ELSE c[Max(S)].t
BranchConsistent(st) == \A r \in BranchRefs : st.bref[r] = LatestFor(st.chain, r)
=============================================================================
