-------------------------- MODULE MC_EntryCodec --------------------------
(***************************************************************************)
(* Exhaustive check over all token texts up to a body length bound:        *)
(*   ParseI = ParseD  (the coded state machines accept exactly the texts   *)
(*   with each security relevant field once, in order, well formed, and    *)
(*   yield those values), Idempotent, and RoundTrip for every recordable   *)
(*   entry.  Texts are emitted as scenarios for rsl.ParseEntryText.        *)
(***************************************************************************)
EXTENDS EntryCodec, Json

CONSTANTS MaxBody,     \* bound on the number of body lines
          EmitAll,     \* emit every text with at most this many body lines
          EmitMod, EmitRes   \* ... and longer ones when accepted or Weight(t) % EmitMod = EmitRes

VARIABLES text

Tokens ==
    {Tok("ref", TRUE, v) : v \in {1, 2}}
    \cup {Tok("tid", TRUE, 1), Tok("tid", TRUE, 2), Tok("tid", FALSE, 9)}
    \cup {Tok("num", TRUE, 0), Tok("num", TRUE, 1), Tok("num", TRUE, 2), Tok("num", FALSE, 9)}
    \cup {Tok("eid", TRUE, 1), Tok("eid", TRUE, 2), Tok("eid", FALSE, 9)}
    \cup {Tok("skip", TRUE, 0), Tok("skip", TRUE, 1), Tok("skip", FALSE, 9)}
    \cup {Tok("upr", TRUE, 1), Tok("upr", TRUE, 2)}
    \cup {Tok("upe", TRUE, 1), Tok("upe", FALSE, 9)}
    \cup {Tok("unk", TRUE, 0), Tok("nocolon", TRUE, 0), Tok("begin", TRUE, 0)}

Init == text \in [hdr : {"ref", "ann", "prop", "refx", "annx", "propx", "none"}, sep : BOOLEAN, body : {<<>>}]
Next == /\ Len(text.body) < MaxBody
        /\ text.sep /\ text.hdr \in {"ref", "ann", "prop"}     \* otherwise rejected whatever follows
        /\ \E t \in Tokens : text' = [text EXCEPT !.body = Append(@, t)]
Spec == Init /\ [][Next]_text

IRefinesD  == ParseI(text) = ParseD(text)
Idem       == Idempotent(text)

\* every entry the API can record, over the value alphabet
Entries ==
    [acc : {TRUE}, kind : {"ref"}, ref : {1, 2}, tid : {1, 2}, num : {0, 1, 2}]
    \cup [acc : {TRUE}, kind : {"prop"}, ref : {1, 2}, tid : {1, 2}, upr : {1, 2}, upe : {1}, num : {0, 1, 2}]
    \cup [acc : {TRUE}, kind : {"ann"}, eids : {<<1>>, <<2>>, <<1, 2>>, <<2, 1>>, <<1, 1>>}, skip : {0, 1}, num : {0, 1, 2}]
RoundTrip == \A e \in Entries : \A m \in BOOLEAN : (e.kind # "ann" /\ m) \/ (ParseI(Ser(e, m)) = e /\ ParseD(Ser(e, m)) = e)

Weight(t) == LET RECURSIVE W(_, _)
                 W(b, i) == IF b = <<>> THEN 0 ELSE i * (Len(Head(b).k) + Head(b).v + (IF Head(b).ok THEN 3 ELSE 5)) + W(Tail(b), i + 1)
             IN W(t.body, 1)
Emit == IF Len(text.body) <= EmitAll \/ ParseI(text).acc \/ Weight(text) % EmitMod = EmitRes
        THEN PrintT(ToJson([t |-> "SCN", text |-> text])) ELSE TRUE
=============================================================================
