----------------------------- MODULE Delegations -----------------------------
(***************************************************************************)
(* The delegation walk of State.FindVerifiersForPath (C06).                *)
(*                                                                         *)
(* A graph g is a function from file names to sequences of rules; the      *)
(* primary file is "targets"; DOMAIN g is the set of rule files that       *)
(* exist.  A rule is [name, pat, pr, thr, term]; the trailing allow rule   *)
(* of every file is implicit (the concretisation appends it, the walk must *)
(* never consult it).  A rule delegates to the file that bears its name,   *)
(* if that file exists.                                                    *)
(*                                                                         *)
(* Layer D: Consulted(g, x) -- the set of rule occurrences <<file, index>> *)
(*          the documented pre-order walk reaches for path x.              *)
(* Layer I: WalkImpl(g, x)  -- the grouped work queue with seenRoles,      *)
(*          prepend-on-delegate and the "stop before the last rule" bound  *)
(*          as coded; returns the SEQUENCE of occurrences.                 *)
(***************************************************************************)
EXTENDS Integers, Sequences, FiniteSets, SequencesExt, FiniteSetsExt, TLC

Primary == "targets"

\* pattern matching table (fnmatch without FNM_PATHNAME), checked against the real matcher by the harness
Paths    == {"main", "feat", "tag"}
Patterns == {"=main", "heads*", "*"}
Match(pat, x) == CASE pat = "*" -> TRUE [] pat = "heads*" -> x \in {"main", "feat"} [] pat = "=main" -> x = "main" [] OTHER -> FALSE

HasFile(g, n) == n \in DOMAIN g
AllRuleNames(g) == [f \in DOMAIN g |-> [i \in DOMAIN g[f] |-> g[f][i].name]]
\* preprocess refuses policies in which two rules (of any files) share a name
LoadOK(g) == \A f1, f2 \in DOMAIN g : \A i \in DOMAIN g[f1], j \in DOMAIN g[f2] :
                 (<<f1, i>> # <<f2, j>>) => g[f1][i].name # g[f2][j].name

(***************************************************************************)
(* Layer D                                                                 *)
(***************************************************************************)
\* rule i of file f is hidden when an earlier matching terminating rule of f enters a delegated file
Cuts(g, f, j, x) == Match(g[f][j].pat, x) /\ g[f][j].term /\ HasFile(g, g[f][j].name) /\ g[f][j].name # Primary
Visible(g, f, i, x) == ~\E j \in 1..(i - 1) : Cuts(g, f, j, x)

RECURSIVE EnteredFrom(_, _, _)
\* least set of files containing S and closed under "a visible matching rule names an existing file"
EnteredFrom(g, S, x) ==
    LET more == {g[f][i].name : <<f, i>> \in {<<f2, i2>> \in UNION {{f3} \X DOMAIN g[f3] : f3 \in S} :
                                                Visible(g, f2, i2, x) /\ Match(g[f2][i2].pat, x) /\ HasFile(g, g[f2][i2].name)}}
    IN IF more \subseteq S THEN S ELSE EnteredFrom(g, S \cup more, x)
Entered(g, x) == IF HasFile(g, Primary) THEN EnteredFrom(g, {Primary}, x) ELSE {}

Consulted(g, x) == {<<f, i>> \in UNION {{f2} \X DOMAIN g[f2] : f2 \in Entered(g, x)} :
                        Visible(g, f, i, x) /\ Match(g[f][i].pat, x)}

(***************************************************************************)
(* Layer I                                                                 *)
(***************************************************************************)
\* a group is a sequence of occurrences <<file, index>>; the implicit allow rule is the extra last element
Group(g, f) == [i \in 1..(Len(g[f]) + 1) |-> IF i <= Len(g[f]) THEN <<f, i>> ELSE <<f, 0>>]

RECURSIVE WalkGroups(_, _, _, _, _, _, _)
\* groups: remaining groups; cur: current group; out: verifiers so far; seen: entered file names; fuel: step bound
WalkGroups(g, x, groups, cur, out, seen, fuel) ==
    IF fuel = 0 THEN [out |-> out, halted |-> FALSE]
    ELSE IF Len(cur) > 1 THEN
        LET occ == Head(cur) d == g[occ[1]][occ[2]] rest == Tail(cur) IN
        IF ~Match(d.pat, x) THEN WalkGroups(g, x, groups, rest, out, seen, fuel - 1)
        ELSE LET out2 == Append(out, occ) IN
             IF d.name \in seen \/ ~HasFile(g, d.name) THEN WalkGroups(g, x, groups, rest, out2, seen, fuel - 1)
             ELSE LET groups2 == <<Group(g, d.name)>> \o groups IN
                  WalkGroups(g, x, groups2, IF d.term THEN <<>> ELSE rest, out2, seen \cup {d.name}, fuel - 1)
    ELSE IF groups = <<>> THEN [out |-> out, halted |-> TRUE]
    ELSE WalkGroups(g, x, Tail(groups), Head(groups), out, seen, fuel - 1)

NRules(g) == LET RECURSIVE Sum(_)
                 Sum(S) == IF S = {} THEN 0 ELSE LET f == CHOOSE f \in S : TRUE IN Len(g[f]) + 1 + Sum(S \ {f})
             IN Sum(DOMAIN g)
StepBound(g) == 2 * NRules(g) + 2 * Cardinality(DOMAIN g) + 2

WalkImpl(g, x) == IF ~HasFile(g, Primary) THEN [out |-> <<>>, halted |-> TRUE]
                  ELSE WalkGroups(g, x, <<Group(g, Primary)>>, <<>>, <<>>, {Primary}, StepBound(g))

IRefinesD(g) == \A x \in Paths : LET w == WalkImpl(g, x) IN
                    /\ w.halted                                   \* terminates within the step bound
                    /\ Range(w.out) = Consulted(g, x)             \* exactly the documented rules
                    /\ Len(w.out) = Cardinality(Range(w.out))     \* each once
=============================================================================
