------------------------------ MODULE Reconcile ------------------------------
(***************************************************************************)
(* Reconciling a diverged local log with a remote and synchronising        *)
(* references (experimental/gittuf/rsl.go: ReconcileLocalRSLWithRemote,    *)
(* sync) -- C15.                                                           *)
(*                                                                         *)
(* An entry is [u, k, ref, t, tg, skip]: a unique identity u (the entry    *)
(* id), kind "ref" | "prop" | "ann", the reference and target commit it    *)
(* records (ref / prop; a target may be a commit recorded earlier: the     *)
(* reference is reset), and for an annotation the identities it names and  *)
(* whether it revokes them (skip) or is a plain note.                      *)
(* A log is a sequence of entries.  Identities matter: re-recording an     *)
(* entry gives it a NEW identity, so what a log MEANS is read through      *)
(* positions: Meaning(log)[i] = [k, ref, t, tg = positions referred to     *)
(* (0 = an identity that is not in the log)].                              *)
(*                                                                         *)
(* The two sides share the prefix C; L is the local-only suffix, R the     *)
(* remote-only suffix.                                                     *)
(*                                                                         *)
(* Deviations:                                                             *)
(*  "ReplayedAnnotationKeepsStaleId"   a re-recorded annotation keeps the  *)
(*       identities it named, also for local-only entries that were just   *)
(*       re-recorded under new identities: it revokes nothing any more     *)
(*  "ReplayDropsPropagationEntries"    local-only propagation entries are  *)
(*       not re-recorded                                                   *)
(*  "ConflictCheckIgnoresPropagation"  only reference entries count as     *)
(*       changes to a reference when looking for conflicts                 *)
(*  "SyncIgnoresPropagationEntries"    sync derives the references to push *)
(*       or to move from reference entries only, so a reference last       *)
(*       recorded by a propagation entry is published / moved wrongly      *)
(***************************************************************************)
EXTENDS Integers, Sequences, FiniteSets, SequencesExt, FiniteSetsExt, TLC

PosOf(log, u) == LET S == {i \in DOMAIN log : log[i].u = u} IN IF S = {} THEN 0 ELSE CHOOSE i \in S : TRUE
Meaning(log) == [i \in DOMAIN log |-> [k |-> log[i].k, ref |-> log[i].ref, t |-> log[i].t, tg |-> {PosOf(log, u) : u \in log[i].tg}, skip |-> log[i].skip]]
SkippedAt(log, i) == \E j \in DOMAIN log : j > i /\ log[j].k = "ann" /\ log[j].skip /\ log[i].u \in log[j].tg
Updates(S, kinds) == {S[i].ref : i \in {j \in DOMAIN S : S[j].k \in kinds}}
MaxU(log) == IF log = <<>> THEN 0 ELSE Max({log[i].u : i \in DOMAIN log})

(***************************************************************************)
(* Layer D                                                                 *)
(***************************************************************************)
\* res: "same" (nothing to do), "ff" (local fast-forwarded), "ahead" (local ahead, untouched), "conflict", "replayed"
ReconcileKind(C, L, R) ==
    IF L = <<>> /\ R = <<>> THEN "same" ELSE IF L = <<>> THEN "ff" ELSE IF R = <<>> THEN "ahead"
    ELSE IF Updates(L, {"ref", "prop"}) \cap Updates(R, {"ref", "prop"}) # {} THEN "conflict" ELSE "replayed"

\* the meaning of the reconciled local log
Shift(p, nC, nR) == IF p = 0 \/ p <= nC THEN p ELSE p + nR
ReconcileD(C, L, R) ==
    LET kind == ReconcileKind(C, L, R) old == Meaning(C \o L) IN
    CASE kind \in {"same", "ahead", "conflict"} -> old
      [] kind = "ff" -> Meaning(C \o R)
      [] OTHER -> Meaning(C \o R) \o [i \in 1..Len(L) |-> [old[Len(C) + i] EXCEPT !.tg = {Shift(p, Len(C), Len(R)) : p \in @}]]

(***************************************************************************)
(* Layer I: set the local log to the remote tip, re-record the local-only  *)
(* entries one by one                                                      *)
(***************************************************************************)
RECURSIVE Replay(_, _, _, _, _)
\* log: the log so far; todo: local-only entries left; map: old identity -> new identity; next: next fresh identity
Replay(log, todo, map, next, Dev) ==
    IF todo = <<>> THEN log
    ELSE LET e == Head(todo) IN
    IF e.k = "prop" /\ "ReplayDropsPropagationEntries" \in Dev THEN Replay(log, Tail(todo), map, next, Dev)
    ELSE LET tg2 == IF "ReplayedAnnotationKeepsStaleId" \in Dev THEN e.tg
                    ELSE {IF u \in DOMAIN map THEN map[u] ELSE u : u \in e.tg}
             e2 == [e EXCEPT !.u = next, !.tg = tg2]
         IN Replay(Append(log, e2), Tail(todo), (e.u :> next) @@ map, next + 1, Dev)

ReconcileI(C, L, R, Dev) ==
    LET kinds == IF "ConflictCheckIgnoresPropagation" \in Dev THEN {"ref"} ELSE {"ref", "prop"} IN
    IF L = <<>> THEN C \o R
    ELSE IF R = <<>> THEN C \o L
    ELSE IF Updates(L, kinds) \cap Updates(R, kinds) # {} THEN C \o L
    ELSE Replay(C \o R, L, <<>>, MaxU(C \o L \o R) + 1, Dev)

(***************************************************************************)
(* What the first sentence of the property says, as predicates on the      *)
(* result log (given as a meaning) -- all implied by ReconcileD            *)
(***************************************************************************)
ExtendsRemote(C, L, R, m) == ReconcileKind(C, L, R) \in {"ff", "replayed"} => SubSeq(m, 1, Len(C) + Len(R)) = Meaning(C \o R)
KeepsLocalOnce(C, L, R, m) ==
    ReconcileKind(C, L, R) = "replayed" =>
        /\ Len(m) = Len(C) + Len(R) + Len(L)
        /\ \A i \in 1..Len(L) : LET x == m[Len(C) + Len(R) + i] IN x.k = L[i].k /\ x.ref = L[i].ref /\ x.t = L[i].t
StillRevoked(C, L, R, m) ==
    ReconcileKind(C, L, R) = "replayed" =>
        \A i \in 1..Len(L) : L[i].k = "ann" =>
            m[Len(C) + Len(R) + i].tg = {Shift(PosOf(C \o L, u), Len(C), Len(R)) : u \in L[i].tg}

(***************************************************************************)
(* Synchronisation.  Commits are numbers: the commit first recorded by     *)
(* entry u is u; 100 + i is an unrecorded local commit on top of the       *)
(* remote's tip of reference i ("ahead"), 200 + i one on top of the shared *)
(* tip ("diverged"); 0 = no such reference.  A scenario adds to C, L, R    *)
(* the local branch states lref : ref -> behind | equal | ahead |          *)
(* diverged | absent (only meaningful when the remote records the ref).    *)
(***************************************************************************)
SRefs == <<"main", "feat">>
RefIdx(r) == IF r = "main" THEN 1 ELSE 2
TipIn(log, r) == LET S == {i \in DOMAIN log : log[i].k \in {"ref", "prop"} /\ log[i].ref = r} IN IF S = {} THEN 0 ELSE log[Max(S)].t
\* the latest unskipped entry of the given kinds for r among positions > from
RecIn(log, from, r, kinds) ==
    LET S == {i \in DOMAIN log : i > from /\ log[i].k \in kinds /\ log[i].ref = r /\ ~SkippedAt(log, i)} IN IF S = {} THEN 0 ELSE log[Max(S)].t

LRefBefore(C, L, R, st, r) ==
    IF TipIn(C \o R, r) = 0 \/ R = <<>> THEN TipIn(C \o L, r)
    ELSE CASE st[r] = "absent" -> 0 [] st[r] = "ahead" -> 100 + RefIdx(r) [] st[r] = "equal" -> TipIn(C \o R, r)
           [] st[r] = "diverged" -> 200 + RefIdx(r) [] OTHER -> TipIn(C \o L, r)

\* parent of a commit
ParentOf(C, L, R, c) ==
    IF c > 200 THEN TipIn(C, SRefs[c - 200]) ELSE IF c > 100 THEN TipIn(C \o R, SRefs[c - 100])
    ELSE LET inC == \E i \in DOMAIN C : C[i].t = c
             side == IF inC THEN C ELSE IF \E i \in DOMAIN L : L[i].t = c THEN C \o L ELSE C \o R
             i == Min({j \in DOMAIN side : side[j].t = c /\ side[j].k \in {"ref", "prop"}})     \* where the commit was first recorded
             P == {j \in 1..(i - 1) : side[j].k \in {"ref", "prop"} /\ side[j].ref = side[i].ref}
         IN IF P = {} THEN 0 ELSE side[Max(P)].t
RECURSIVE ChainOf(_, _, _, _)
ChainOf(C, L, R, c) == IF c = 0 THEN {} ELSE {c} \cup ChainOf(C, L, R, ParentOf(C, L, R, c))
AncEq(C, L, R, a, b) == a # 0 /\ b # 0 /\ a \in ChainOf(C, L, R, b)

\* a world before / after: [llog, rlog, lref, rref]; result adds err \in {"", "diverged"}
SyncBefore(C, L, R, st) == [llog |-> C \o L, rlog |-> C \o R, lref |-> [r \in {"main", "feat"} |-> LRefBefore(C, L, R, st, r)],
                            rref |-> [r \in {"main", "feat"} |-> TipIn(C \o R, r)]]
SyncI(C, L, R, st, ow, Dev) ==
    LET w == SyncBefore(C, L, R, st)
        kinds == IF "SyncIgnoresPropagationEntries" \in Dev THEN {"ref"} ELSE {"ref", "prop"}
        rtip == [r \in {"main", "feat"} |-> RecIn(C \o R, Len(C), r, kinds)]
        ltip == [r \in {"main", "feat"} |-> RecIn(C \o L, Len(C), r, kinds)]
        considered == {r \in {"main", "feat"} : rtip[r] # 0 /\ w.lref[r] # 0}
        div == {r \in considered : ~AncEq(C, L, R, w.lref[r], rtip[r])}
        taken == [w EXCEPT !.llog = C \o R, !.lref = [r \in {"main", "feat"} |-> IF r \in considered THEN rtip[r] ELSE w.lref[r]]]
    IN
    IF L = <<>> /\ R = <<>> THEN [w |-> w, err |-> "", div |-> {}]
    ELSE IF R = <<>> THEN [w |-> [w EXCEPT !.rlog = C \o L, !.rref = [r \in {"main", "feat"} |-> IF ltip[r] # 0 THEN w.lref[r] ELSE w.rref[r]]],
                           err |-> "", div |-> {}]
    ELSE IF L = <<>> THEN IF div # {} /\ ~ow THEN [w |-> w, err |-> "diverged", div |-> div] ELSE [w |-> taken, err |-> "", div |-> {}]
    ELSE IF ~ow THEN [w |-> w, err |-> "diverged", div |-> {"rsl"}] ELSE [w |-> taken, err |-> "", div |-> {}]

\* the guarantees of the second sentence of the property, on a before / after pair
LatestRecorded(log, r) == RecIn(log, 0, r, {"ref", "prop"})
MovesOnlyToRecorded(w, w2) == \A r \in {"main", "feat"} : w2.lref[r] # w.lref[r] => w2.lref[r] = LatestRecorded(w.rlog, r)
NoRewindUnlessTold(C, L, R, w, w2, ow) ==
    ~ow => /\ \A r \in {"main", "feat"} : w2.lref[r] # w.lref[r] => AncEq(C, L, R, w.lref[r], w2.lref[r])
           /\ IsPrefix(Meaning(w.llog), Meaning(w2.llog))
RemoteOnlyExtended(w, w2) == IsPrefix(Meaning(w.rlog), Meaning(w2.rlog))
\* (the reference is published as it stands locally; when the local branch is not where its latest unskipped entry says --
\* a revoked reset, say -- that is the state of the local repository, not something synchronisation adds)
PublishedTogether(C, L, R, w, w2) ==
    w2.rlog # w.rlog => \A r \in {"main", "feat"} : LET t == RecIn(w2.rlog, Len(w.rlog), r, {"ref", "prop"}) IN
                            t # 0 => w2.rref[r] = w.lref[r]
RefusalChangesNothing(w, res) == res.err # "" => res.w = w
=============================================================================
