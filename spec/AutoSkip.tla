------------------------------ MODULE AutoSkip ------------------------------
(***************************************************************************)
(* Automatic skip of entries invalidated by a history rewrite              *)
(* (rsl.SkipAllInvalidReferenceEntriesForRef) -- the "automatic skips"     *)
(* recording operation of C03.                                             *)
(*                                                                         *)
(* A log is a sequence of entries [k, ref, t, tg]: kind "ref" | "prop" |   *)
(* "ann"; t = [e, n] is a commit: number n on history line e, so that a is *)
(* an ancestor of b iff they are on the same line and a.n <= b.n (a rebase *)
(* starts a new line); tg = positions an annotation names.                 *)
(*                                                                         *)
(* Deviation "AutoSkipIgnoresReference": every reference entry met on the  *)
(* way back is judged against the tip of the reference being repaired, so  *)
(* entries of OTHER references are revoked too.                            *)
(***************************************************************************)
EXTENDS Integers, Sequences, FiniteSets, FiniteSetsExt, TLC

Anc(a, b) == a.e = b.e /\ a.n <= b.n
Upd(l, r) == {i \in DOMAIN l : l[i].k \in {"ref", "prop"} /\ l[i].ref = r}

\* walk back from position `from`, collecting reference entries (of r only, unless the deviation) whose target is not an
\* ancestor of tip, until one that is
RECURSIVE Collect(_, _, _, _, _, _)
Collect(l, r, from, tip, acc, Dev) ==
    IF from = 0 THEN acc
    ELSE LET e == l[from]
             judged == e.k = "ref" /\ (e.ref = r \/ "AutoSkipIgnoresReference" \in Dev)
         IN IF ~judged THEN Collect(l, r, from - 1, tip, acc, Dev)
            ELSE IF Anc(e.t, tip) THEN acc
            ELSE Collect(l, r, from - 1, tip, acc \cup {from}, Dev)

\* the annotation appended (<<>> = nothing to do)
AutoSkip(l, r, Dev) ==
    LET U == Upd(l, r) IN
    IF U = {} THEN [res |-> "notfound", app |-> <<>>]
    ELSE LET latest == Max(U) P == {i \in U : i < latest} IN
         IF P = {} THEN [res |-> "ok", app |-> <<>>]
         ELSE LET S == Collect(l, r, Max(P), l[latest].t, {}, Dev) IN
              [res |-> "ok", app |-> IF S = {} THEN <<>> ELSE <<[k |-> "ann", ref |-> "", t |-> [e |-> 0, n |-> 0], tg |-> S]>>]

(***************************************************************************)
(* What the operation must guarantee (the parts of C03 it is subject to,   *)
(* and what its own documentation promises)                                *)
(***************************************************************************)
AppendsAtMostOne(l, r) == Len(AutoSkip(l, r, {}).app) <= 1
NamesOnlyOwnRewritten(l, r) ==
    \A x \in DOMAIN AutoSkip(l, r, {}).app : \A i \in AutoSkip(l, r, {}).app[x].tg :
        l[i].k = "ref" /\ l[i].ref = r /\ ~Anc(l[i].t, l[Max(Upd(l, r))].t)
=============================================================================
