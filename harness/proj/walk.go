// Package proj is the independent projection from concrete repository state to
// the abstract state of the specification.  It never uses gittuf's readers:
// commits are decoded by the harness' own object store (or, for on-disk
// repositories, by git plumbing) and entry texts by the small scanner below.
package proj

import (
	"strconv"
	"strings"

	"github.com/gittuf/gittuf/pkg/githash"
	"github.com/gittuf/gittuf/verifharness/memstore"
)

const RSLRef = "refs/gittuf/reference-state-log"

// Entry is a projected log entry.
type Entry struct {
	ID       string   `json:"-"`
	K        string   `json:"k"` // ref | prop | ann | garb
	Ref      string   `json:"ref"`
	Target   string   `json:"-"`
	Num      int      `json:"num"`
	Tg       []int    `json:"tg"` // positions of annotated entries (0 = not in chain)
	TgIDs    []string `json:"-"`
	Skip     bool     `json:"skip"`
	Up       string   `json:"up"`
	UpEntry  string   `json:"-"`
	NParents int      `json:"np"`
	Signed   bool     `json:"-"`
}

// ScanEntry decodes an entry text (first occurrence of each key wins; this is
// a projection, not a validator).
func ScanEntry(msg string) Entry {
	e := Entry{K: "garb", Tg: []int{}}
	lines := strings.Split(strings.TrimSpace(msg), "\n")
	switch lines[0] {
	case "RSL Reference Entry":
		e.K = "ref"
	case "RSL Annotation Entry":
		e.K = "ann"
	case "RSL Propagation Entry":
		e.K = "prop"
	default:
		return e
	}
	seen := map[string]bool{}
	for _, l := range lines[1:] {
		l = strings.TrimSpace(l)
		if l == "-----BEGIN MESSAGE-----" {
			break
		}
		k, v, ok := strings.Cut(l, ":")
		if !ok {
			continue
		}
		k, v = strings.TrimSpace(k), strings.TrimSpace(v)
		if k != "entryID" && seen[k] {
			continue
		}
		seen[k] = true
		switch k {
		case "ref":
			e.Ref = v
		case "targetID":
			e.Target = v
		case "number":
			n, _ := strconv.Atoi(v)
			e.Num = n
		case "entryID":
			e.TgIDs = append(e.TgIDs, v)
		case "skip":
			e.Skip = v == "true"
		case "upstreamRepository":
			e.Up = v
		case "upstreamEntryID":
			e.UpEntry = v
		}
	}
	return e
}

// WalkRSL returns the log oldest first, following first parents from the tip.
func WalkRSL(s *memstore.Store) ([]Entry, error) {
	tip := s.RawRef(RSLRef)
	var rev []Entry
	var cur githash.Hash = tip
	for cur != nil {
		ci, err := s.CommitInfo(cur)
		if err != nil {
			return nil, err
		}
		e := ScanEntry(ci.Message)
		e.ID = cur.String()
		e.NParents = len(ci.Parents)
		e.Signed = ci.Sig != ""
		rev = append(rev, e)
		if len(ci.Parents) == 0 {
			break
		}
		cur = ci.Parents[0]
	}
	out := make([]Entry, len(rev))
	pos := map[string]int{}
	for i := range rev {
		out[i] = rev[len(rev)-1-i]
		pos[out[i].ID] = i + 1
	}
	for i := range out {
		for _, id := range out[i].TgIDs {
			out[i].Tg = append(out[i].Tg, pos[id])
		}
	}
	return out, nil
}
