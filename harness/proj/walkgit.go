package proj

import (
	"os"
	"os/exec"
	"strings"
)

func gitOut(dir string, args ...string) (string, error) {
	cmd := exec.Command("git", args...)
	cmd.Dir = dir
	cmd.Env = append(os.Environ(), "GIT_CONFIG_GLOBAL=/dev/null", "GIT_CONFIG_SYSTEM=/dev/null")
	out, err := cmd.Output()
	return string(out), err
}

// WalkRSLGit reads the log of an on-disk repository with git plumbing only
// (rev-list --parents, cat-file), oldest first, following first parents.
func WalkRSLGit(dir string) ([]Entry, error) {
	out, err := gitOut(dir, "rev-list", "--first-parent", "--parents", RSLRef)
	if err != nil {
		if strings.TrimSpace(out) == "" {
			return nil, nil // no log yet
		}
		return nil, err
	}
	lines := strings.Split(strings.TrimSpace(out), "\n")
	var rev []Entry
	for _, l := range lines {
		if l == "" {
			continue
		}
		f := strings.Fields(l)
		raw, err := gitOut(dir, "cat-file", "commit", f[0])
		if err != nil {
			return nil, err
		}
		msg := ""
		if i := strings.Index(raw, "\n\n"); i >= 0 {
			msg = raw[i+2:]
		}
		e := ScanEntry(msg)
		e.ID = f[0]
		e.NParents = len(f) - 1
		e.Signed = strings.Contains(raw[:strings.Index(raw+"\n\n", "\n\n")], "\ngpgsig ")
		rev = append(rev, e)
	}
	res := make([]Entry, len(rev))
	pos := map[string]int{}
	for i := range rev {
		res[i] = rev[len(rev)-1-i]
		pos[res[i].ID] = i + 1
	}
	for i := range res {
		for _, id := range res[i].TgIDs {
			res[i].Tg = append(res[i].Tg, pos[id])
		}
	}
	return res, nil
}

// CommitMessageGit returns the raw message of a commit ("" on error).
func CommitMessageGit(dir, id string) string {
	raw, err := gitOut(dir, "cat-file", "commit", id)
	if err != nil {
		return ""
	}
	if i := strings.Index(raw, "\n\n"); i >= 0 {
		return raw[i+2:]
	}
	return ""
}

// RefTipGit returns the tip of ref ("" when absent).
func RefTipGit(dir, ref string) string {
	out, err := gitOut(dir, "rev-parse", "--verify", "-q", ref)
	if err != nil {
		return ""
	}
	return strings.TrimSpace(out)
}
