package fam

import (
	"context"
	"fmt"
	"os"
	"path/filepath"
	"sort"
	"strings"

	"github.com/gittuf/gittuf/internal/policy"
	"github.com/gittuf/gittuf/pkg/githash"
	"github.com/gittuf/gittuf/pkg/gitinterface"
	"github.com/gittuf/gittuf/pkg/gitstore"
	"github.com/gittuf/gittuf/verifharness/hx"
	"github.com/gittuf/gittuf/verifharness/memstore"
)

// ---- file rules over commit graphs with odd path names: C10 ----------------
//
// Every scenario of MC_Trees is built in the in-memory store (trees written in
// Git's byte format, so any name Git can store is representable), exported to
// an on-disk repository and then observed only through the real
// gitinterface.Repository and the real verifier running on top of it.

type tCommit struct {
	Par  []int          `json:"par"`
	Tree map[string]int `json:"tree"`
	S    string         `json:"s"`
}

type tScn struct {
	Shape   string    `json:"shape"`
	Commits []tCommit `json:"commits"`
	Old     int       `json:"old"`
	New     int       `json:"new"`
	Prot    []string  `json:"prot"`
	Star    bool      `json:"star"`
	Pat     string    `json:"pat"`
}

type tRec struct {
	T       string     `json:"t"`
	Sc      tScn       `json:"sc"`
	Dok     bool       `json:"dok"`
	Exempt  bool       `json:"exempt"`
	Changed [][]string `json:"changed"`
	Newc    []int      `json:"newc"`
}

// tView is what one reading of a set of paths gave: atoms whose verbatim name came back, and everything else.
type tView struct {
	Seen []string `json:"seen"`
	Junk []string `json:"junk"`
	Err  string   `json:"err"`
}

type tObs struct {
	ID        int               `json:"id"`
	Sc        tScn              `json:"sc"`
	Cls       map[string]string `json:"cls"`
	Names     map[string]string `json:"names"`
	Lead      map[string]bool   `json:"lead"` // some component of the atom's name begins with a double quote
	Pattern   string            `json:"pattern"`
	Backend   string            `json:"backend"`
	Verdict   string            `json:"verdict"` // ok | vf | other
	Msg       string            `json:"msg"`
	Mergeable string            `json:"mergeable"` // VerifyMergeableForCommit asked before the new entry exists: ok | vf | ...
	MergeMsg  string            `json:"mergemsg"`
	Changed   []tView           `json:"changed"` // per commit: GetFilePathsChangedByCommit
	Listed    []tView           `json:"listed"`  // per commit: GetAllFilesInTree of its tree (blob ids compared too)
	Entries   []tView           `json:"entries"` // per commit: GetEntriesInTree of its root tree (top-level names)
	Rewrite   []string          `json:"rewrite"` // per commit: WriteTree of the verbatim entries: same | differs | error
	Lookup    []string          `json:"lookup"`  // per commit: GetPathIDInTree of every present path: ok | wrong
}

var tClasses = []string{"plain", "space", "quoted", "glob"}

// variants per class: suffixes appended to the atom's letter
var tVariants = map[string][]string{
	"plain":  {".txt", "-1", "_x.go"},
	"space":  {" file.txt", " a b", "  two", " end "},
	"quoted": {"\tt", "\"q\"", "\\b", "\x01c", "é", "日本", "\x7f", "\"", "\\"},
	"glob":   {"[1].txt", "*.c", "?.c", "[ab]"},
}

func tName(atom, class string, v int) string {
	vs := tVariants[class]
	suf := vs[v%len(vs)]
	switch atom {
	case "a":
		return "a" + suf
	case "b":
		// half of the quoted/space variants put the odd byte first
		if (class == "quoted" || class == "space") && v%2 == 1 {
			return strings.TrimRight(suf, " ") + "b"
		}
		return "b" + suf
	default: // dx: a file in a directory; the class applies to the directory for odd v, to the file otherwise
		if v%2 == 1 {
			return "d" + suf + "/x"
		}
		return "d/x" + suf
	}
}

func globEscape(s string) string {
	var b strings.Builder
	for _, c := range s {
		if strings.ContainsRune(`*?[]\`, c) {
			b.WriteByte('\\')
		}
		b.WriteRune(c)
	}
	return b.String()
}

func tPattern(pat string, names map[string]string) string {
	switch pat {
	case "a", "b":
		return globEscape(names[pat])
	case "d/*":
		return globEscape(strings.SplitN(names["dx"], "/", 2)[0]) + "/*"
	}
	return "*"
}

func runTreesScn(id int, rec tRec, seed int64, workdir string) (obs tObs, err error) {
	sc := rec.Sc
	obs = tObs{ID: id, Sc: sc, Cls: map[string]string{}, Names: map[string]string{}, Lead: map[string]bool{}}
	// class and variant assignment: a rotation over all combinations, shifted by the seed
	k := id*7 + int(seed)
	atoms := []string{"a", "b", "dx"}
	for i, a := range atoms {
		c := tClasses[(k/pow(4, i))%4]
		obs.Cls[a] = c
		obs.Names[a] = tName(a, c, (k/64)+i+int(seed))
		for _, comp := range strings.Split(obs.Names[a], "/") {
			if strings.HasPrefix(comp, "\"") {
				obs.Lead[a] = true
			}
		}
		obs.Lead[a] = obs.Lead[a] || false
	}
	obs.Pattern = tPattern(sc.Pat, obs.Names)

	// the branch itself is unprotected: only the file rule decides (so that the mergeability prediction, which has its own
	// listed deviations for branch thresholds, can be asked about the file rule alone)
	pol := vPolicy{Rules: map[string][]vVerifier{}, All: []string{"p1", "p2"},
		Files: []vFileRule{{Pat: obs.Pattern, Pr: []string{"p1"}, Thr: 1}}}
	r := newVRepo(seed, map[string]vPolicy{"F": pol})
	if err := r.add(1, vEntry{K: "pol", V: "F"}); err != nil {
		return obs, err
	}
	// blobs, trees, commits
	commitIDs := make([]githash.Hash, len(sc.Commits)+1)
	treeIDs := make([]githash.Hash, len(sc.Commits)+1)
	for i, c := range sc.Commits {
		entries := []gitstore.TreeEntry{}
		for _, a := range atoms {
			if c.Tree[a] == 0 {
				continue
			}
			blob, _ := r.h.WriteBlob([]byte(fmt.Sprintf("atom %s version %d\n", a, c.Tree[a])))
			entries = append(entries, gitstore.TreeEntry{Path: obs.Names[a], ID: blob, Kind: gitstore.KindBlob})
		}
		var tree githash.Hash
		if len(entries) == 0 {
			tree, _ = r.h.EmptyTree()
		} else if tree, err = r.h.WriteTree(entries); err != nil {
			return obs, err
		}
		var parents []githash.Hash
		for _, p := range c.Par {
			parents = append(parents, commitIDs[p])
		}
		cid, err := r.s.MakeCommit(tree, parents, fmt.Sprintf("commit %d", i+1), r.keyPEM(c.S))
		if err != nil {
			return obs, err
		}
		commitIDs[i+1], treeIDs[i+1] = cid, tree
	}
	if sc.Old != 0 {
		if err := r.addRefTarget("main", "p1", commitIDs[sc.Old]); err != nil {
			return obs, err
		}
	}
	pre := r.clone() // the repository before the new commits are recorded: what a mergeability prediction sees
	if err := r.addRefTarget("main", "p1", commitIDs[sc.New]); err != nil {
		return obs, err
	}

	dir := filepath.Join(workdir, fmt.Sprintf("t%d", id))
	if err := os.MkdirAll(dir, 0o755); err != nil {
		return obs, err
	}
	defer os.RemoveAll(dir)
	if out, err := gitRun(dir, "init", "-q", "--bare", "."); err != nil {
		return obs, fmt.Errorf("git init: %v %s", err, out)
	}
	if err := r.s.ExportTo(dir); err != nil {
		return obs, err
	}
	repo, err := gitinterface.LoadRepository(dir)
	if err != nil {
		return obs, err
	}

	byName := map[string]string{}
	for a, n := range obs.Names {
		byName[n] = a
	}
	view := func(paths []string, e error) tView {
		v := tView{Seen: []string{}, Junk: []string{}}
		if e != nil {
			v.Err = e.Error()
			return v
		}
		for _, p := range paths {
			if a, ok := byName[p]; ok {
				v.Seen = append(v.Seen, a)
			} else {
				v.Junk = append(v.Junk, p)
			}
		}
		sort.Strings(v.Seen)
		sort.Strings(v.Junk)
		return v
	}
	isNew := map[int]bool{}
	for _, i := range rec.Newc {
		isNew[i] = true
	}
	skipped := tView{Seen: []string{}, Junk: []string{}, Err: "skipped"}
	for i := 1; i <= len(sc.Commits); i++ {
		if !isNew[i] {
			obs.Changed = append(obs.Changed, skipped)
		} else {
			paths, e := repo.GetFilePathsChangedByCommit(commitIDs[i])
			obs.Changed = append(obs.Changed, view(paths, e))
		}
		if i != sc.New {
			obs.Listed, obs.Entries = append(obs.Listed, skipped), append(obs.Entries, skipped)
			obs.Rewrite, obs.Lookup = append(obs.Rewrite, "skipped"), append(obs.Lookup, "skipped")
			continue
		}

		truth, _, _ := r.s.Flatten(treeIDs[i])
		files, e := repo.GetAllFilesInTree(treeIDs[i])
		var ps []string
		for p, id := range files {
			if t, ok := truth[p]; ok && !t.Equal(id) {
				p = "wrong-blob:" + p
			}
			ps = append(ps, p)
		}
		obs.Listed = append(obs.Listed, view(ps, e))

		// top-level entries: files by their own name, the directory by the atom dx
		ents, e := repo.GetEntriesInTree(treeIDs[i])
		ps = nil
		dirName := strings.SplitN(obs.Names["dx"], "/", 2)[0]
		for _, en := range ents {
			if en.Path == dirName && en.Kind == gitstore.KindSubtree {
				ps = append(ps, obs.Names["dx"])
			} else {
				ps = append(ps, en.Path)
			}
		}
		obs.Entries = append(obs.Entries, view(ps, e))

		// rewriting the tree from its verbatim entries gives the same tree
		var es []gitstore.TreeEntry
		for p, id := range truth {
			es = append(es, gitstore.TreeEntry{Path: p, ID: id, Kind: gitstore.KindBlob})
		}
		sort.Slice(es, func(x, y int) bool { return es[x].Path < es[y].Path })
		rw := "same"
		if len(es) > 0 {
			got, e := repo.WriteTree(es)
			switch {
			case e != nil:
				rw = "error"
			case !got.Equal(treeIDs[i]):
				rw = "differs"
			}
		}
		obs.Rewrite = append(obs.Rewrite, rw)

		lk := "ok"
		for p, id := range truth {
			got, e := repo.GetPathIDInTree(treeIDs[i], p)
			if e != nil || !got.Equal(id) {
				lk = "wrong"
			}
		}
		obs.Lookup = append(obs.Lookup, lk)
	}

	func() {
		defer func() {
			if x := recover(); x != nil {
				obs.Verdict, obs.Msg = "panic", fmt.Sprint(x)
			}
		}()
		// one scenario in eight runs entirely on the on-disk repository; the others read policy, log and signatures from
		// the in-memory store and only the commit range and the changed paths -- the mechanism under test -- from real Git
		var st gitstore.Storer = &hybridStorer{Handle: r.s.Handle(), real: repo}
		obs.Backend = "hybrid"
		if (id+int(seed))%8 == 0 {
			st, obs.Backend = repo, "git"
		}
		_, e := policy.NewPolicyVerifier(st).VerifyRef(context.Background(), fullRef("main"))
		obs.Verdict = verifyErrClass(e)
		if e != nil {
			obs.Msg = e.Error()
		}
	}()
	// the mergeability prediction for the same commits, asked before they are recorded, must agree with the file rule
	func() {
		defer func() {
			if x := recover(); x != nil {
				obs.Mergeable, obs.MergeMsg = "panic", fmt.Sprint(x)
			}
		}()
		_, e := policy.NewPolicyVerifier(&hybridStorer{Handle: pre.s.Handle(), real: repo}).VerifyMergeableForCommit(context.Background(), fullRef("main"), commitIDs[sc.New])
		obs.Mergeable = verifyErrClass(e)
		if e != nil {
			obs.MergeMsg = e.Error()
		}
	}()
	return obs, nil
}

// hybridStorer answers everything from the in-memory store except the two calls file-rule verification depends on.
type hybridStorer struct {
	*memstore.Handle
	real *gitinterface.Repository
}

func (h *hybridStorer) GetFilePathsChangedByCommit(id githash.Hash) ([]string, error) {
	return h.real.GetFilePathsChangedByCommit(id)
}

func (h *hybridStorer) GetCommitsBetweenRange(newID, oldID githash.Hash) ([]githash.Hash, error) {
	return h.real.GetCommitsBetweenRange(newID, oldID)
}

func pow(b, e int) int {
	r := 1
	for ; e > 0; e-- {
		r *= b
	}
	return r
}

// Trees runs every scenario of scnPath on a real repository.
func Trees(scnPath, outPath string, seed int64, limit int) error {
	recs, err := hx.ReadNDJSONInto[tRec](scnPath)
	if err != nil {
		return err
	}
	if limit > 0 && len(recs) > limit {
		r := hx.Rand(seed)
		r.Shuffle(len(recs), func(i, j int) { recs[i], recs[j] = recs[j], recs[i] })
		recs = recs[:limit]
	}
	base, err := os.MkdirTemp("", "verif-trees-")
	if err != nil {
		return err
	}
	defer os.RemoveAll(base)
	out := make([]tObs, len(recs))
	errs := make([]error, len(recs))
	parallel(len(recs), func(i int) {
		out[i], errs[i] = runTreesScn(i+1, recs[i], seed, base)
	})
	w, err := hx.NewWriter(outPath)
	if err != nil {
		return err
	}
	defer w.Close()
	for i := range out {
		if errs[i] != nil {
			return fmt.Errorf("scenario %d: %w", i+1, errs[i])
		}
		w.Write(out[i])
	}
	return nil
}
