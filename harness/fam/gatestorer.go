package fam

import (
	"bytes"
	"runtime"
	"strconv"
	"sync"

	"github.com/gittuf/gittuf/pkg/githash"
	"github.com/gittuf/gittuf/pkg/gitinterface"
	"github.com/gittuf/gittuf/pkg/gitstore"
)

// gateStorer wraps a real gitstore.Storer (a gitinterface.Repository) and calls
// gate(method, arg) before every call that reads or writes a reference.
type gateStorer struct {
	gitstore.Storer
	gate func(method, arg string)
}

func (g *gateStorer) GetReference(ref string) (githash.Hash, error) {
	g.gate("GetReference", ref)
	return g.Storer.GetReference(ref)
}
func (g *gateStorer) SetReference(ref string, id githash.Hash) error {
	g.gate("SetReference", ref)
	return g.Storer.SetReference(ref, id)
}
func (g *gateStorer) DeleteReference(ref string) error {
	g.gate("DeleteReference", ref)
	return g.Storer.DeleteReference(ref)
}
func (g *gateStorer) ResetDueToError(cause error, ref string, id githash.Hash) error {
	g.gate("ResetDueToError", ref)
	return g.Storer.ResetDueToError(cause, ref, id)
}
func (g *gateStorer) Commit(tree githash.Hash, ref, msg string, sign bool) (githash.Hash, error) {
	g.gate("Commit", ref)
	return g.Storer.Commit(tree, ref, msg, sign)
}
func (g *gateStorer) CommitUsingSpecificKey(tree githash.Hash, ref, msg string, key []byte) (githash.Hash, error) {
	g.gate("CommitUsingSpecificKey", ref)
	return g.Storer.CommitUsingSpecificKey(tree, ref, msg, key)
}

// The yield hook of gitinterface is process-global; it is dispatched to the
// writer goroutine that is executing it.
var (
	yieldMu  sync.Mutex
	yieldFns = map[uint64]func(ref string){}
	yieldSet bool
)

func goid() uint64 {
	b := make([]byte, 64)
	b = b[:runtime.Stack(b, false)]
	b = bytes.TrimPrefix(b, []byte("goroutine "))
	b = b[:bytes.IndexByte(b, ' ')]
	n, _ := strconv.ParseUint(string(b), 10, 64)
	return n
}

func registerYield(f func(ref string)) {
	yieldMu.Lock()
	defer yieldMu.Unlock()
	yieldFns[goid()] = f
	if !yieldSet {
		yieldSet = true
		gitinterface.VerifYield = func(point, ref string) {
			if point != "commit:tip-read" {
				return
			}
			yieldMu.Lock()
			fn := yieldFns[goid()]
			yieldMu.Unlock()
			if fn != nil {
				fn(ref)
			}
		}
	}
}

func unregisterYield() {
	yieldMu.Lock()
	defer yieldMu.Unlock()
	delete(yieldFns, goid())
}
