package fam

import (
	"context"
	"fmt"
	"os"
	"sort"
	"sync"
	"time"

	"github.com/gittuf/gittuf/internal/attestations"
	"github.com/gittuf/gittuf/internal/policy"
	"github.com/gittuf/gittuf/pkg/githash"
	"github.com/gittuf/gittuf/pkg/gitinterface"
	"github.com/gittuf/gittuf/pkg/gitstore"
	"github.com/gittuf/gittuf/pkg/rsl"
	"github.com/gittuf/gittuf/verifharness/conc"
	"github.com/gittuf/gittuf/verifharness/hx"
	"github.com/gittuf/gittuf/verifharness/memstore"
	"github.com/gittuf/gittuf/verifharness/proj"
)

// ---- C03 / C17: recording operations under a given schedule ---------------

type wJob struct {
	Op   string `json:"op"`
	Ref  string `json:"ref"`
	T    int    `json:"t"`
	Up   string `json:"up"`
	Tg   []int  `json:"tg"`
	Skip bool   `json:"skip"`
}

type wEntry struct {
	K    string `json:"k"`
	Ref  string `json:"ref"`
	Num  int    `json:"num"`
	Tg   []int  `json:"tg"`
	Skip bool   `json:"skip"`
	W    string `json:"w"`
	J    int    `json:"j"`
	NP   int    `json:"np"`
}

type wScn struct {
	Mode  string              `json:"mode"`
	Init  []wEntry            `json:"init"`
	Jobs  map[string][]wJob   `json:"jobs"`
	Sched [][]string          `json:"sched"`
	Res   map[string][]string `json:"res"`
	Chain []wEntry            `json:"chain"`
}

type wObs struct {
	Followed bool                `json:"followed"` // the code passed exactly the gates of the schedule
	Why      string              `json:"why"`
	Res      map[string][]string `json:"res"`
	Chain    []wEntry            `json:"chain"`
	Bref     map[string]int      `json:"bref"` // branch ref state: 0 absent, 1 = equals latest log entry target, 2 = other
	Gates    [][]string          `json:"gates"`
}

type gateMsg struct {
	w     string
	label string // r1 r2 r3 b1 b2 b3 b4 (class of the gate reached) or "done"
	ok    bool   // for "done": job result
}

type wWriter struct {
	name     string
	h        *memstore.Handle // in-memory backend only
	st       gitstore.Storer  // what the real code is given
	walk     func() []proj.Entry
	nonEntry func() githash.Hash
	split    func(ref string) // real backend: called from gitinterface's yield hook
	jobs     []wJob
	toSched  chan gateMsg
	release  chan struct{}
}

func gateClass(method, arg string) string {
	switch method {
	case "GetReference":
		if arg == conc.RSLRef {
			return "r1"
		}
		return "b1"
	case "Commit", "CommitUsingSpecificKey":
		if arg == conc.RSLRef {
			return "r2"
		}
		return "b2"
	case "split":
		if arg == conc.RSLRef {
			return "r3"
		}
		return "b3"
	case "ResetDueToError", "SetReference", "DeleteReference":
		return "b4"
	}
	return ""
}

func uniqueTarget(w string, j int) githash.Hash { return conc.FakeHash(fmt.Sprintf("job-%s-%d", w, j)) }

func runJob(ctx context.Context, wr *wWriter, j int, jb wJob, ids []githash.Hash, rootState *policy.State) error {
	h := wr.st
	switch jb.Op {
	case "ref":
		return rsl.NewReferenceEntry(jb.Ref, uniqueTarget(wr.name, j)).Commit(h, false)
	case "prop":
		return rsl.NewPropagationEntry(jb.Ref, uniqueTarget(wr.name, j), jb.Up, conc.FakeHash("upstream-entry")).Commit(h, false)
	case "ann":
		var tg []githash.Hash
		cur := wr.walk() // positions are resolved against the log as it is when the job starts
		for _, p := range jb.Tg {
			if p >= 1 && p <= len(cur) {
				tg = append(tg, mustHash(cur[p-1].ID))
			} else if p >= 1 && p < len(ids) {
				tg = append(tg, ids[p])
			} else if p == 0 {
				// an existing commit that is not an RSL entry (the same one every time)
				tg = append(tg, wr.nonEntry())
			} else {
				tg = append(tg, conc.FakeHash(fmt.Sprintf("not-an-entry-%d", p)))
			}
		}
		return rsl.NewAnnotationEntry(tg, jb.Skip, fmt.Sprintf("job-%s-%d", wr.name, j)).Commit(h, false)
	case "apply":
		return policy.Apply(ctx, h, false)
	case "branch":
		if jb.Ref == "refs/gittuf/attestations" {
			return (&attestations.Attestations{}).Commit(h, fmt.Sprintf("job-%s-%d", wr.name, j), true, false)
		}
		st := &policy.State{Metadata: rootState.Metadata}
		return st.Commit(h, fmt.Sprintf("job-%s-%d", wr.name, j), true, false)
	}
	return fmt.Errorf("unknown job op %q", jb.Op)
}

// replayWriters runs one scenario under its schedule.
func replayWriters(scn wScn, seed int64, realDir string) wObs {
	obs := wObs{Followed: true, Res: map[string][]string{}, Bref: map[string]int{}, Gates: [][]string{}}
	s := memstore.New()
	// initial chain
	var init []conc.AbsEntry
	for _, e := range scn.Init {
		init = append(init, conc.AbsEntry{K: e.K, Ref: e.Ref, T: 1, Num: e.Num, Tg: e.Tg, Skip: e.Skip})
	}
	ids, err := conc.BuildChain(s, init, nil, nil)
	if err != nil {
		return wObs{Why: "setup: " + err.Error()}
	}
	rootKey := conc.GetKey(seed, "root")
	rootState, err := conc.MinimalPolicyState(rootKey)
	if err != nil {
		return wObs{Why: "setup: " + err.Error()}
	}
	names := make([]string, 0, len(scn.Jobs))
	for w := range scn.Jobs {
		names = append(names, w)
	}
	sort.Strings(names)
	writers := map[string]*wWriter{}
	var wg sync.WaitGroup
	ctx := context.Background()
	emptyTree, _ := s.Handle().EmptyTree()
	nonEntryID, _ := s.MakeCommitWithSigAt(emptyTree, nil, "an ordinary commit, not an RSL entry", "", 1600000000)
	if realDir != "" {
		if err := newGitRepo(realDir); err != nil {
			return wObs{Why: "setup: " + err.Error()}
		}
		if err := s.ExportTo(realDir + "/.git"); err != nil {
			return wObs{Why: "setup: " + err.Error()}
		}
	}
	for _, name := range names {
		wr := &wWriter{name: name, jobs: scn.Jobs[name], toSched: make(chan gateMsg), release: make(chan struct{})}
		writers[name] = wr
		wr.nonEntry = func() githash.Hash { return nonEntryID }
		gate := func(method, arg string) {
			cls := gateClass(method, arg)
			if cls == "" || scn.Mode == "seq" {
				return
			}
			wr.toSched <- gateMsg{w: wr.name, label: cls}
			<-wr.release
		}
		if realDir == "" {
			wr.h = s.Handle()
			wr.st = wr.h
			wr.walk = func() []proj.Entry { e, _ := proj.WalkRSL(s); return e }
			wr.h.Inter = func(c memstore.Call) error { gate(c.Method, c.Arg); return nil }
			wr.h.SplitCommit = func(ref string) { gate("split", ref) }
		} else {
			repo, err := gitinterface.LoadRepository(realDir)
			if err != nil {
				return wObs{Why: "setup: " + err.Error()}
			}
			wr.st = &gateStorer{Storer: repo, gate: gate}
			wr.walk = func() []proj.Entry { e, _ := proj.WalkRSLGit(realDir); return e }
			wr.split = func(ref string) { gate("split", ref) }
		}
	}
	// each writer runs its jobs in order; before each job it waits for "start"
	for _, name := range names {
		wr := writers[name]
		wg.Add(1)
		go func() {
			defer wg.Done()
			if wr.split != nil {
				registerYield(wr.split)
				defer unregisterYield()
			}
			for j, jb := range wr.jobs {
				<-wr.release // "start"
				err := runJob(ctx, wr, j+1, jb, ids, rootState)
				wr.toSched <- gateMsg{w: wr.name, label: "done", ok: err == nil}
			}
		}()
	}
	// pending[w]: gate the writer is parked at ("" = idle between jobs / not started)
	pending := map[string]string{}
	await := func(w string) (gateMsg, bool) {
		select {
		case m := <-writers[w].toSched:
			return m, true
		case <-time.After(20 * time.Second):
			return gateMsg{}, false
		}
	}
	fail := func(why string) {
		if obs.Followed {
			obs.Followed = false
			obs.Why = why
		}
	}
	// advance releases writer w once and records where it stops next
	advance := func(w string) bool {
		writers[w].release <- struct{}{}
		m, ok := await(w)
		if !ok {
			fail("writer " + w + " did not reach a gate (timeout)")
			return false
		}
		if m.label == "done" {
			r := "fail"
			if m.ok {
				r = "ok"
			}
			obs.Res[w] = append(obs.Res[w], r)
			pending[w] = ""
		} else {
			pending[w] = m.label
		}
		return true
	}
	classOf := func(lbl string) string {
		switch lbl {
		case "r3ok", "r3fail":
			return "r3"
		case "b3ok", "b3fail":
			return "b3"
		}
		return lbl
	}
	started := map[string]int{}
	for _, ev := range scn.Sched {
		w, lbl := ev[0], ev[1]
		if scn.Mode == "seq" && lbl != "start" && lbl != "refuse" {
			continue // sequential histories are driven per operation, not per gate
		}
		obs.Gates = append(obs.Gates, []string{w, lbl, pending[w]})
		if !obs.Followed {
			break
		}
		switch lbl {
		case "start", "refuse":
			if pending[w] != "" {
				fail(fmt.Sprintf("%s: start while parked at %s", w, pending[w]))
				break
			}
			started[w]++
			before := len(obs.Res[w])
			if !advance(w) {
				break
			}
			if lbl == "refuse" && len(obs.Res[w]) == before {
				fail(fmt.Sprintf("%s: operation expected to be refused reached gate %s", w, pending[w]))
			}
			if lbl == "start" && len(obs.Res[w]) != before && scn.Mode != "seq" {
				fail(fmt.Sprintf("%s: operation finished before any gate", w))
			}
		default:
			if pending[w] != classOf(lbl) {
				fail(fmt.Sprintf("%s: schedule expects gate %s, code is at %q", w, lbl, pending[w]))
				break
			}
			advance(w)
		}
	}
	// drain: let every writer finish whatever it is doing (in name order)
	for guard := 0; guard < 200; guard++ {
		progressed := false
		for _, w := range names {
			done := len(obs.Res[w])
			if pending[w] != "" || (started[w] < len(writers[w].jobs) && done == started[w]) {
				if pending[w] == "" {
					started[w]++
				}
				if obs.Followed {
					fail(fmt.Sprintf("%s: work left after the schedule ended (at %q)", w, pending[w]))
				}
				if !advance(w) {
					return obs
				}
				progressed = true
			}
		}
		if !progressed {
			break
		}
	}
	wg.Wait()
	// project
	var entries []proj.Entry
	if realDir == "" {
		entries, err = proj.WalkRSL(s)
	} else {
		entries, err = proj.WalkRSLGit(realDir)
	}
	if err != nil {
		obs.Why += " walk: " + err.Error()
		return obs
	}
	msgOf := func(id string) string {
		if realDir == "" {
			ci, err := s.CommitInfo(mustHash(id))
			if err != nil {
				return ""
			}
			return ci.Message
		}
		return proj.CommitMessageGit(realDir, id)
	}
	tipOf := func(ref string) githash.Hash {
		if realDir == "" {
			return s.RawRef(ref)
		}
		return mustHash(proj.RefTipGit(realDir, ref))
	}
	owner := map[string][2]any{}
	for _, w := range names {
		for j := range writers[w].jobs {
			owner[uniqueTarget(w, j+1).String()] = [2]any{w, j + 1}
		}
	}
	for _, e := range entries {
		we := wEntry{K: e.K, Ref: e.Ref, Num: e.Num, Tg: e.Tg, Skip: e.Skip, NP: e.NParents}
		if we.Tg == nil {
			we.Tg = []int{}
		}
		obs.Chain = append(obs.Chain, we)
	}
	// ownership: by unique target (ref/prop), by message (annotations), by commit message (branch jobs)
	assignOwners(msgOf, entries, obs.Chain, names, writers)
	if scn.Mode == "seq" {
		assignApplyOwners(obs.Chain, names, writers, obs.Res)
	}
	for _, r := range []string{"refs/gittuf/policy-staging", "refs/gittuf/attestations", "refs/gittuf/policy"} {
		tip := tipOf(r)
		latest := ""
		for _, e := range entries {
			if (e.K == "ref" || e.K == "prop") && e.Ref == r {
				latest = e.Target
			}
		}
		switch {
		case tip == nil && latest == "":
			obs.Bref[r] = 0
		case tip != nil && tip.String() == latest:
			obs.Bref[r] = 1
		default:
			obs.Bref[r] = 2
		}
	}
	if obs.Chain == nil {
		obs.Chain = []wEntry{}
	}
	return obs
}

func assignApplyOwners(chain []wEntry, names []string, writers map[string]*wWriter, res map[string][]string) {
	for _, w := range names {
		var okApplies []int
		for j, jb := range writers[w].jobs {
			if jb.Op == "apply" && j < len(res[w]) && res[w][j] == "ok" {
				okApplies = append(okApplies, j+1)
			}
		}
		k := 0
		for i := range chain {
			if chain[i].K == "ref" && chain[i].Ref == "refs/gittuf/policy" && chain[i].W == "" && k < len(okApplies) {
				chain[i].W, chain[i].J = w, okApplies[k]
				k++
			}
		}
	}
}

func assignOwners(msgOf func(id string) string, entries []proj.Entry, chain []wEntry, names []string, writers map[string]*wWriter) {
	for i, e := range entries {
		for _, w := range names {
			for j, jb := range writers[w].jobs {
				tag := fmt.Sprintf("job-%s-%d", w, j+1)
				switch jb.Op {
				case "ref", "prop":
					if e.Target == uniqueTarget(w, j+1).String() {
						chain[i].W, chain[i].J = w, j+1
					}
				case "ann":
					if e.K == "ann" {
						if containsPEM(msgOf(e.ID), tag) {
							chain[i].W, chain[i].J = w, j+1
						}
					}
				case "apply":
					// owned below (k-th successful apply <-> k-th policy entry)
				case "branch":
					if (e.K == "ref") && e.Ref == jb.Ref && e.Target != "" {
						if trim(msgOf(e.Target)) == tag {
							chain[i].W, chain[i].J = w, j+1
						}
					}
				}
			}
		}
	}
}

// Writers replays writer scenarios (C03 sequential, C17 concurrent).
// WritersReal replays a (small) seeded sample on real on-disk repositories through gitinterface.Repository.
func WritersReal(scnPath, outPath string, seed int64, limit int) error {
	return writersRun(scnPath, outPath, seed, limit, true)
}

func Writers(scnPath, outPath string, seed int64, limit int) error {
	return writersRun(scnPath, outPath, seed, limit, false)
}

func writersRun(scnPath, outPath string, seed int64, limit int, real bool) error {
	scns, err := hx.ReadNDJSONInto[wScn](scnPath)
	if err != nil {
		return err
	}
	wr, err := hx.NewWriter(outPath)
	if err != nil {
		return err
	}
	defer wr.Close()
	if limit > 0 && len(scns) > limit {
		r := hx.Rand(seed)
		r.Shuffle(len(scns), func(i, j int) { scns[i], scns[j] = scns[j], scns[i] })
		scns = scns[:limit]
	}
	type line struct {
		ID  int  `json:"id"`
		Scn wScn `json:"scn"`
		Obs wObs `json:"obs"`
	}
	out := make([]line, len(scns))
	var wg sync.WaitGroup
	sem := make(chan struct{}, 16)
	for i := range scns {
		wg.Add(1)
		sem <- struct{}{}
		go func(i int) {
			defer wg.Done()
			defer func() { <-sem }()
			dir := ""
			if real {
				d, err := os.MkdirTemp("", "verif-wr-")
				if err != nil {
					out[i] = line{ID: i + 1, Scn: scns[i], Obs: wObs{Why: "setup: " + err.Error()}}
					return
				}
				defer os.RemoveAll(d)
				dir = d
			}
			out[i] = line{ID: i + 1, Scn: scns[i], Obs: replayWriters(scns[i], seed, dir)}
		}(i)
	}
	wg.Wait()
	for _, l := range out {
		wr.Write(l)
	}
	return nil
}
