package fam

import (
	"context"
	"errors"
	"fmt"
	"os"
	"path/filepath"
	"sort"

	"github.com/gittuf/gittuf/experimental/gittuf"
	"github.com/gittuf/gittuf/internal/signerverifier/ssh"
	"github.com/gittuf/gittuf/internal/tuf"
	"github.com/gittuf/gittuf/verifharness/conc"
	"github.com/gittuf/gittuf/verifharness/hx"
)

// ---- hook selection per principal: the last clause of C20 ------------------
//
// A policy whose root declares hooks for stages and principals is built in the
// in-memory store, applied (policy entry in the log), exported to disk, and
// InvokeHooksForStage is called through experimental/gittuf with a signer whose
// key belongs to one of the principals (or to nobody).  Every hook script
// returns its own number, so the exit-code map tells which hooks ran.

type hsHook struct {
	Name   string   `json:"name"`
	Stages []string `json:"stages"`
	Pr     []string `json:"pr"`
}

type hsScn struct {
	Hooks []hsHook `json:"hooks"`
	Key   string   `json:"key"` // k1 (principal p1) | k2 (p2) | k3a, k3b (person P3) | kx (nobody)
}

type hsObs struct {
	Ran []string `json:"ran"`
	Bad []string `json:"bad"` // hooks whose exit code is not their own number
	Res string   `json:"res"` // ok | nohooks | unknown | other
	Msg string   `json:"msg"`
}

func runHookSel(id int, scn hsScn, seed int64, base string) (hsObs, error) {
	obs := hsObs{Ran: []string{}, Bad: []string{}}
	num := map[string]int{}
	ap := &conc.AbsPolicy{RootPr: []string{"root"}, RootThr: 1, RootSig: []string{"root"}, TgtPr: []string{"root"}, TgtThr: 1,
		Targets: &conc.AbsFile{Sig: []string{"root"}, Extra: []string{"k1", "k2", "P3"}},
		Persons: map[string]conc.AbsPerson{"P3": {Keys: []string{"k3a", "k3b"}}}}
	prName := map[string]string{"p1": "k1", "p2": "k2", "P3": "P3"}
	for i, h := range scn.Hooks {
		num[h.Name] = 10 + i
		pr := []string{}
		for _, p := range h.Pr {
			pr = append(pr, prName[p])
		}
		ap.Hooks = append(ap.Hooks, conc.AbsHook{Name: h.Name, Stages: h.Stages, Pr: pr, Script: fmt.Sprintf("return %d", 10+i), Timeout: 300})
	}
	r := newVRepo(seed, nil)
	for _, h := range ap.Hooks {
		if _, err := r.h.WriteBlob([]byte(h.Script)); err != nil {
			return obs, err
		}
	}
	if err := r.addPolicyState(1, ap); err != nil {
		return obs, err
	}
	dir := filepath.Join(base, fmt.Sprintf("h%d", id))
	if err := os.MkdirAll(dir, 0o755); err != nil {
		return obs, err
	}
	defer os.RemoveAll(dir)
	if _, err := gitRaw(dir, nil, nil, "init", "-q", "--bare", "-b", "main", "."); err != nil {
		return obs, err
	}
	if err := r.s.ExportTo(dir); err != nil {
		return obs, err
	}
	keyPath := filepath.Join(dir, "invoker-key")
	if err := os.WriteFile(keyPath, conc.GetKey(seed, scn.Key).PEM, 0o600); err != nil {
		return obs, err
	}
	signer, err := ssh.NewSignerFromFile(keyPath)
	if err != nil {
		return obs, err
	}
	repo, err := gittuf.LoadRepository(dir)
	if err != nil {
		return obs, err
	}
	codes, err := repo.InvokeHooksForStage(context.Background(), signer, tuf.HookStagePreCommit)
	switch {
	case err == nil:
		obs.Res = "ok"
	case errors.Is(err, gittuf.ErrNoHooksFoundForPrincipal):
		obs.Res = "nohooks"
	case errors.Is(err, tuf.ErrPrincipalNotFound):
		obs.Res = "unknown"
	default:
		obs.Res, obs.Msg = "other", err.Error()
	}
	for name, c := range codes {
		obs.Ran = append(obs.Ran, name)
		if c != num[name] {
			obs.Bad = append(obs.Bad, name)
		}
	}
	sort.Strings(obs.Ran)
	sort.Strings(obs.Bad)
	return obs, nil
}

// HookSel replays hook-selection scenarios.
func HookSel(scnPath, outPath string, seed int64, limit int) error {
	scns, err := hx.ReadNDJSONInto[hsScn](scnPath)
	if err != nil {
		return err
	}
	if limit > 0 && len(scns) > limit {
		r := hx.Rand(seed)
		r.Shuffle(len(scns), func(i, j int) { scns[i], scns[j] = scns[j], scns[i] })
		scns = scns[:limit]
	}
	base, err := os.MkdirTemp("", "verif-hooksel-")
	if err != nil {
		return err
	}
	defer os.RemoveAll(base)
	type line struct {
		ID  int    `json:"id"`
		Scn hsScn  `json:"scn"`
		Obs hsObs  `json:"obs"`
		Err string `json:"err"`
	}
	out := make([]line, len(scns))
	parallel(len(scns), func(i int) {
		o, err := runHookSel(i+1, scns[i], seed, base)
		out[i] = line{ID: i + 1, Scn: scns[i], Obs: o}
		if err != nil {
			out[i].Err = err.Error()
		}
	})
	w, err := hx.NewWriter(outPath)
	if err != nil {
		return err
	}
	defer w.Close()
	for _, l := range out {
		w.Write(l)
	}
	return nil
}
