package fam

import (
	"context"
	"fmt"
	"sort"
	"strings"
	"sync"
	"time"

	"github.com/gittuf/gittuf/internal/luasandbox"
	luaopts "github.com/gittuf/gittuf/internal/luasandbox/options/luasandbox"
	"github.com/gittuf/gittuf/verifharness/hx"
	lua "github.com/yuin/gopher-lua"
)

// ---- C20: the Lua hook sandbox ------------------------------------------------

type sbProg struct {
	Cls    string `json:"cls"`
	Via    string `json:"via"`
	Target string `json:"target"`
	V      string `json:"v"`
}

type sbScn struct {
	Prog     sbProg `json:"prog"`
	Expected string `json:"expected"`
}

type sbObs struct {
	Res       string `json:"res"` // denied | escaped | timeout | hung | exit:n | exit:1 | error
	ElapsedMs int    `json:"elapsedMs"`
	Code      int    `json:"code"`
	Msg       string `json:"msg,omitempty"`
}

// access expression for a (possibly dotted) target through a given route
func sbAccess(via, target string) string {
	parts := strings.SplitN(target, ".", 2)
	idx := func(base string) string {
		e := fmt.Sprintf("%s[%q]", base, parts[0])
		if len(parts) == 2 {
			e = fmt.Sprintf("(%s or {})[%q]", e, parts[1])
		}
		return e
	}
	switch via {
	case "direct":
		if len(parts) == 2 {
			return fmt.Sprintf("(%s or {})[%q]", parts[0], parts[1])
		}
		return parts[0]
	case "getfenv0":
		return idx("getfenv(0)")
	case "getfenv1":
		return idx("getfenv(1)")
	case "setfenv":
		return idx("getfenv(setfenv(function() end, getfenv(0)))")
	case "pcall":
		return fmt.Sprintf("select(2, pcall(function() return %s end))", sbAccess("direct", target))
	case "xpcall":
		return fmt.Sprintf("select(2, xpcall(function() return %s end, function(e) return nil end))", sbAccess("direct", target))
	case "coroutine":
		return fmt.Sprintf("coroutine.wrap(function() return %s end)()", sbAccess("getfenv0", target))
	case "strmethod":
		// through the string metatable
		if len(parts) == 2 && parts[0] == "string" {
			return fmt.Sprintf("(\"x\")[%q]", parts[1])
		}
		return fmt.Sprintf("(\"x\")[%q]", parts[0])
	}
	return "nil"
}

func sbRender(p sbProg) string {
	switch p.Cls {
	case "escape":
		return fmt.Sprintf("local ok, v = pcall(function() return %s end)\nif ok and v ~= nil then return 42 end\nreturn 7", sbAccess(p.Via, p.Target))
	case "write":
		lib := p.Target
		var stmt string
		switch p.Via {
		case "assign":
			stmt = fmt.Sprintf("%s.verif_injected = function() return 1 end", lib)
		case "assign-nil":
			stmt = fmt.Sprintf("%s.verif_injected2 = nil; %s.verif_injected = 1", lib, lib)
		case "via-strmeta":
			stmt = fmt.Sprintf("(\"x\").verif_injected = 1; %s.verif_injected = 1", lib)
		case "via-getfenv":
			stmt = fmt.Sprintf("getfenv(0)[%q].verif_injected = 1", lib)
		}
		return fmt.Sprintf("local ok = pcall(function() %s end)\nif %s.verif_injected ~= nil then return 42 end\nif ok then return 41 end\nreturn 7", stmt, lib)
	case "loop":
		switch p.Via {
		case "while":
			return "local i = 0\nwhile true do i = i + 1 end\nreturn 0"
		case "recursion":
			return "local function f(n) return f(n + 1) end\nreturn f(1)"
		case "pingpong":
			return "local a = coroutine.wrap(function() while true do coroutine.yield(1) end end)\nwhile true do a() end\nreturn 0"
		case "pcall-loop":
			return "while true do pcall(function() error('x') end) end\nreturn 0"
		case "find-blowup":
			return "local s, p = '', ''\nfor i = 1, 26 do s = s .. 'a'; p = p .. 'a?' end\nfor i = 1, 26 do p = p .. 'a' end\nwhile true do string.find(s, p) end\nreturn 0"
		case "gsub-blowup":
			return "local s = ''\nfor i = 1, 25 do s = s .. 'a' end\nlocal p = ''\nfor i = 1, 25 do p = p .. 'a*' end\nwhile true do string.gsub(s .. 'b', p .. 'c', '') end\nreturn 0"
		case "sort-loop":
			return "local t = {}\nfor i = 1, 50 do t[i] = i end\nwhile true do table.sort(t, function(a, b) return a > b end) end\nreturn 0"
		case "repeat-concat":
			return "local s = 'x'\nwhile true do s = s .. s; if #s > 1000000 then s = 'x' end end\nreturn 0"
		}
	case "ret":
		switch p.V {
		case "number":
			return "return 3"
		case "float":
			return "return 3.7"
		case "negative":
			return "return -2"
		case "string":
			return "return '0'"
		case "nil":
			return "return nil"
		case "table":
			return "return {0}"
		case "boolean":
			return "return true"
		case "none":
			return "local x = 1"
		}
	}
	return "return 1"
}

// sbSolo lets a re-run have the machine's attention: ordinary runs share it, a re-run holds it exclusively.
var sbSolo sync.RWMutex

// sbRunRobust runs p; programs that must terminate on their own get a generous timeout (so that a starved machine cannot
// turn them into timeouts), and a non-terminating program that overshoots its 1 s deadline by a margin that scheduling
// noise could explain is run again, alone, before the overshoot is believed.
func sbRunRobust(p sbProg) sbObs {
	if p.Cls != "loop" {
		sbSolo.RLock()
		defer sbSolo.RUnlock()
		return sbRun(p, 60)
	}
	sbSolo.RLock()
	o := sbRun(p, 1)
	sbSolo.RUnlock()
	for try := 0; try < 2 && o.Res == "timeout" && o.ElapsedMs > 2400 && o.ElapsedMs < 8000; try++ {
		sbSolo.Lock()
		o2 := sbRun(p, 1)
		sbSolo.Unlock()
		if o2.Res != "timeout" || o2.ElapsedMs < o.ElapsedMs {
			o = o2
		}
	}
	return o
}

func sbRun(p sbProg, timeoutSec int) sbObs {
	ctx := context.Background()
	env, err := luasandbox.NewLuaEnvironment(ctx, nil, luaopts.WithLuaTimeout(timeoutSec))
	if err != nil {
		return sbObs{Res: "error", Msg: err.Error()}
	}
	type res struct {
		code int
		err  error
	}
	ch := make(chan res, 1)
	start := time.Now()
	go func() {
		defer func() {
			if r := recover(); r != nil {
				ch <- res{-2, fmt.Errorf("panic: %v", r)}
			}
		}()
		code, err := env.RunScript(sbRender(p), lua.LTable{})
		ch <- res{code, err}
	}()
	var out sbObs
	select {
	case r := <-ch:
		out.ElapsedMs = int(time.Since(start).Milliseconds())
		out.Code = r.code
		if r.err != nil {
			out.Msg = r.err.Error()
		}
		switch {
		case r.err != nil && strings.Contains(r.err.Error(), "context deadline exceeded"):
			out.Res = "timeout"
		case r.err != nil && p.Cls == "loop" && strings.Contains(r.err.Error(), "stack overflow"):
			out.Res = "timeout" // stopped (by the VM's own limit) before the deadline
		case r.err != nil:
			out.Res = "error"
		case p.Cls == "escape" || p.Cls == "write":
			if r.code == 7 {
				out.Res = "denied"
			} else {
				out.Res = "escaped"
			}
		case p.Cls == "ret":
			if p.V == "number" || p.V == "float" || p.V == "negative" {
				out.Res = "exit:n"
				want := map[string]int{"number": 3, "float": 3, "negative": -2}[p.V]
				if r.code != want {
					out.Res = fmt.Sprintf("exit:%d", r.code)
				}
			} else if r.code == 1 {
				out.Res = "exit:1"
			} else {
				out.Res = fmt.Sprintf("exit:%d", r.code)
			}
		default:
			out.Res = fmt.Sprintf("exit:%d", r.code)
		}
	case <-time.After(time.Duration(timeoutSec)*time.Second + 20*time.Second):
		out.ElapsedMs = int(time.Since(start).Milliseconds())
		out.Res = "hung"
	}
	env.Cleanup()
	return out
}

// ---- environment walker (Go side, needs the verif accessor) -----------------

type sbEnv struct {
	Globals   map[string]string   `json:"globals"` // name -> fn | tbl | data
	Tables    map[string][]string `json:"tables"`  // library table -> members
	Prot      []string            `json:"prot"`    // tables whose metatable rejects writes and hides itself
	StrMeta   []string            `json:"strmeta"` // members reachable through the string metatable
	Apis      []string            `json:"apis"`    // names reported by GetAPIs()
	Anomalies []string            `json:"anomalies"`
}

func kindOf(v lua.LValue) string {
	switch v.Type() {
	case lua.LTFunction:
		return "fn"
	case lua.LTTable:
		return "tbl"
	case lua.LTUserData, lua.LTThread, lua.LTChannel:
		return "obj"
	}
	return "data"
}

func sbWalk() (sbEnv, error) {
	env, err := luasandbox.NewLuaEnvironment(context.Background(), nil, luaopts.WithLuaTimeout(5))
	if err != nil {
		return sbEnv{}, err
	}
	defer env.Cleanup()
	L := env.VerifLState()
	out := sbEnv{Globals: map[string]string{}, Tables: map[string][]string{}, Prot: []string{}, StrMeta: []string{}, Apis: []string{}, Anomalies: []string{}}
	for _, a := range env.GetAPIs() {
		out.Apis = append(out.Apis, a.GetName())
	}
	sort.Strings(out.Apis)
	g := L.Get(lua.GlobalsIndex).(*lua.LTable)
	seen := map[*lua.LTable]string{g: "_G"}
	var walkFn func(path string, f *lua.LFunction)
	walkFn = func(path string, f *lua.LFunction) {
		if f.Env != nil && f.Env != g {
			out.Anomalies = append(out.Anomalies, path+": function environment is not the globals table")
		}
		for i, uv := range f.Upvalues {
			if uv == nil {
				continue
			}
			v := uv.Value()
			if t, ok := v.(*lua.LTable); ok {
				if _, known := seen[t]; !known {
					out.Anomalies = append(out.Anomalies, fmt.Sprintf("%s: upvalue %d holds a table not reachable from the globals", path, i))
				}
			}
		}
	}
	g.ForEach(func(k, v lua.LValue) {
		name := k.String()
		out.Globals[name] = kindOf(v)
		if t, ok := v.(*lua.LTable); ok {
			seen[t] = name
		}
	})
	g.ForEach(func(k, v lua.LValue) {
		name := k.String()
		switch x := v.(type) {
		case *lua.LFunction:
			walkFn(name, x)
		case *lua.LTable:
			members := []string{}
			x.ForEach(func(mk, mv lua.LValue) {
				members = append(members, mk.String())
				if f, ok := mv.(*lua.LFunction); ok {
					walkFn(name+"."+mk.String(), f)
				}
				if t, ok := mv.(*lua.LTable); ok && t != x {
					if _, known := seen[t]; !known {
						out.Anomalies = append(out.Anomalies, name+"."+mk.String()+": nested table")
					}
				}
			})
			sort.Strings(members)
			out.Tables[name] = members
			if mt, ok := x.Metatable.(*lua.LTable); ok {
				_, hasNI := mt.RawGetString("__newindex").(*lua.LFunction)
				hidden := mt.RawGetString("__metatable") != lua.LNil
				if hasNI && hidden {
					out.Prot = append(out.Prot, name)
				}
				if idx := mt.RawGetString("__index"); idx != lua.LNil {
					out.Anomalies = append(out.Anomalies, name+": metatable has __index")
				}
			}
		}
	})
	sort.Strings(out.Prot)
	if mt, ok := L.GetMetatable(lua.LString("x")).(*lua.LTable); ok {
		idx := mt.RawGetString("__index")
		if t, ok := idx.(*lua.LTable); ok {
			t.ForEach(func(mk, _ lua.LValue) { out.StrMeta = append(out.StrMeta, mk.String()) })
		}
		sort.Strings(out.StrMeta)
	}
	return out, nil
}

// Sandbox runs the emitted programs and walks the environment.
func Sandbox(scnPath, outPath string, seed int64) error {
	scns, err := hx.ReadNDJSONInto[sbScn](scnPath)
	if err != nil {
		return err
	}
	wr, err := hx.NewWriter(outPath)
	if err != nil {
		return err
	}
	defer wr.Close()
	envObs, err := sbWalk()
	if err != nil {
		return err
	}
	wr.Write(struct {
		ID   int    `json:"id"`
		Kind string `json:"kind"`
		Env  sbEnv  `json:"env"`
		Prog sbProg `json:"prog"`
		Obs  sbObs  `json:"obs"`
	}{1, "env", envObs, sbProg{}, sbObs{}})
	type line struct {
		ID   int    `json:"id"`
		Kind string `json:"kind"`
		Env  sbEnv  `json:"env"`
		Prog sbProg `json:"prog"`
		Obs  sbObs  `json:"obs"`
	}
	out := make([]line, len(scns))
	empty := sbEnv{Globals: map[string]string{}, Tables: map[string][]string{}, Prot: []string{}, StrMeta: []string{}, Apis: []string{}, Anomalies: []string{}}
	// loops burn a core each until the deadline: run them a few at a time
	sem := make(chan struct{}, 6)
	done := make(chan struct{})
	for i := range scns {
		go func(i int) {
			sem <- struct{}{}
			out[i] = line{ID: i + 2, Kind: "prog", Env: empty, Prog: scns[i].Prog, Obs: sbRunRobust(scns[i].Prog)}
			<-sem
			done <- struct{}{}
		}(i)
	}
	for range scns {
		<-done
	}
	for _, l := range out {
		wr.Write(l)
	}
	_ = seed
	return nil
}
