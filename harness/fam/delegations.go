package fam

import (
	"errors"
	"fmt"
	"sort"
	"time"

	"github.com/danwakefield/fnmatch"
	"github.com/gittuf/gittuf/internal/policy"
	"github.com/gittuf/gittuf/internal/tuf"
	"github.com/gittuf/gittuf/verifharness/conc"
	"github.com/gittuf/gittuf/verifharness/hx"
	"github.com/gittuf/gittuf/verifharness/memstore"
)

// ---- C06: the delegation walk ------------------------------------------------

type dRule struct {
	Name string   `json:"name"`
	Pat  string   `json:"pat"`
	Term bool     `json:"term"`
	Pr   []string `json:"pr"`
	Thr  int      `json:"thr"`
}

type dScn struct {
	Files  []string           `json:"files"`
	G      map[string][]dRule `json:"g"`
	LoadOK bool               `json:"loadok"`
	Scheme string             `json:"scheme"` // filled by the harness: git | file
	V01    bool               `json:"v01"`
}

type dVerifier struct {
	Name string   `json:"name"`
	Thr  int      `json:"thr"`
	Pr   []string `json:"pr"`
}

type dObs struct {
	Load    string                 `json:"load"` // ok | dup | err
	Walks   map[string][]dVerifier `json:"walks"`
	Timeout bool                   `json:"timeout"`
	Msg     string                 `json:"msg,omitempty"`
}

var dPatterns = map[string]map[string]string{
	"git":  {"=main": "git:refs/heads/main", "heads*": "git:refs/heads/*", "*": "*"},
	"file": {"=main": "file:src/main.go", "heads*": "file:src/*", "*": "*"},
}
var dPaths = map[string]map[string]string{
	"git":  {"main": "git:refs/heads/main", "feat": "git:refs/heads/feat", "tag": "git:refs/tags/v1"},
	"file": {"main": "file:src/main.go", "feat": "file:src/feat/x.go", "tag": "file:docs/readme"},
}

// checkMatchTable makes sure the specification's Match table is what the real matcher computes.
func checkMatchTable() error {
	want := map[string]map[string]bool{
		"*":      {"main": true, "feat": true, "tag": true},
		"heads*": {"main": true, "feat": true, "tag": false},
		"=main":  {"main": true, "feat": false, "tag": false},
	}
	for scheme := range dPatterns {
		for pat, row := range want {
			for path, exp := range row {
				if fnmatch.Match(dPatterns[scheme][pat], dPaths[scheme][path], 0) != exp {
					return fmt.Errorf("match table mismatch: %s vs %s", dPatterns[scheme][pat], dPaths[scheme][path])
				}
			}
		}
	}
	return nil
}

func runDelegScn(scn *dScn, seed int64) (obs dObs) {
	defer func() {
		if r := recover(); r != nil {
			obs = dObs{Load: "panic", Walks: map[string][]dVerifier{}, Msg: fmt.Sprint(r)}
		}
	}()
	prNames := []string{"p1", "p2", "p3", "p4"}
	n := 0
	mk := func(rules []dRule) *conc.AbsFile {
		f := &conc.AbsFile{Sig: []string{"root"}}
		for i := range rules {
			n++
			rules[i].Pr = []string{prNames[n%4], prNames[(n+1)%4]}
			sort.Strings(rules[i].Pr)
			rules[i].Thr = 1 + n%2
			f.Rules = append(f.Rules, conc.AbsRule{Name: rules[i].Name, Pats: []string{dPatterns[scn.Scheme][rules[i].Pat]}, Pr: rules[i].Pr, Thr: rules[i].Thr, Term: rules[i].Term})
		}
		return f
	}
	files := append([]string{}, scn.Files...)
	sort.Strings(files)
	ap := &conc.AbsPolicy{RootPr: []string{"root"}, RootThr: 1, RootSig: []string{"root"}, TgtPr: []string{"root"}, TgtThr: 1,
		Files: map[string]*conc.AbsFile{}, V01: scn.V01}
	for _, f := range files {
		af := mk(scn.G[f])
		if f == "targets" {
			ap.Targets = af
		} else {
			ap.Files[f] = af
		}
	}
	md, world := conc.BuildMetadata(ap, seed)
	nameOf := map[string]string{}
	for _, p := range prNames {
		nameOf[world.PrincipalID(p)] = p
	}
	s := memstore.New()
	h := s.Handle()
	if err := (&policy.State{Metadata: md}).Commit(h, "policy", false, false); err != nil {
		return dObs{Load: "setup", Walks: map[string][]dVerifier{}, Msg: err.Error()}
	}
	state, err := policy.LoadStateFromCommit(h, s.RawRef(policy.PolicyStagingRef))
	if err != nil {
		if errors.Is(err, tuf.ErrDuplicatedRuleName) {
			return dObs{Load: "dup", Walks: map[string][]dVerifier{}}
		}
		return dObs{Load: "err", Walks: map[string][]dVerifier{}, Msg: err.Error()}
	}
	obs = dObs{Load: "ok", Walks: map[string][]dVerifier{}}
	for _, x := range []string{"main", "feat", "tag"} {
		type res struct {
			v   []*policy.SignatureVerifier
			err error
		}
		ch := make(chan res, 1)
		go func() {
			v, err := state.FindVerifiersForPath(dPaths[scn.Scheme][x])
			ch <- res{v, err}
		}()
		select {
		case r := <-ch:
			if r.err != nil {
				obs.Msg = r.err.Error()
				obs.Load = "walkerr"
				continue
			}
			out := []dVerifier{}
			for _, v := range r.v {
				pr := []string{}
				for _, id := range v.TrustedPrincipalIDs().Contents() {
					if nm, ok := nameOf[id]; ok {
						pr = append(pr, nm)
					} else {
						pr = append(pr, "?"+id)
					}
				}
				sort.Strings(pr)
				out = append(out, dVerifier{Name: v.Name(), Thr: v.Threshold(), Pr: pr})
			}
			obs.Walks[x] = out
		case <-time.After(10 * time.Second):
			obs.Timeout = true
			obs.Walks[x] = []dVerifier{}
		}
	}
	return obs
}

// Delegations replays delegation graphs in both schemes and both schemas.
func Delegations(scnPath, outPath string, seed int64, variants int) error {
	if err := checkMatchTable(); err != nil {
		return err
	}
	scns, err := hx.ReadNDJSONInto[dScn](scnPath)
	if err != nil {
		return err
	}
	wr, err := hx.NewWriter(outPath)
	if err != nil {
		return err
	}
	defer wr.Close()
	type line struct {
		ID  int  `json:"id"`
		Scn dScn `json:"scn"`
		Obs dObs `json:"obs"`
	}
	if variants <= 0 || variants > 4 {
		variants = 1
	}
	out := make([]line, len(scns)*variants)
	parallel(len(out), func(i int) {
		base := scns[i/variants]
		// deep copy (rules are annotated with principals / thresholds per run)
		scn := dScn{Files: base.Files, LoadOK: base.LoadOK, G: map[string][]dRule{}}
		for f, rs := range base.G {
			scn.G[f] = append([]dRule{}, rs...)
		}
		v := (i%variants + int(seed)) % 4
		if variants == 4 {
			v = i % 4
		}
		scn.Scheme = []string{"git", "file"}[v%2]
		scn.V01 = v >= 2
		o := runDelegScn(&scn, seed)
		out[i] = line{ID: i + 1, Scn: scn, Obs: o}
	})
	for _, l := range out {
		wr.Write(l)
	}
	return nil
}
