package fam

import (
	"bytes"
	"fmt"
	"os"
	"os/exec"
	"path/filepath"
	"sort"
	"strings"

	"github.com/gittuf/gittuf/internal/propagation"
	"github.com/gittuf/gittuf/internal/tuf"
	tufv02 "github.com/gittuf/gittuf/internal/tuf/v02"
	"github.com/gittuf/gittuf/pkg/githash"
	"github.com/gittuf/gittuf/pkg/gitinterface"
	"github.com/gittuf/gittuf/pkg/gitstore"
	"github.com/gittuf/gittuf/verifharness/conc"
	"github.com/gittuf/gittuf/verifharness/hx"
	"github.com/gittuf/gittuf/verifharness/memstore"
	"github.com/gittuf/gittuf/verifharness/proj"
)

// ---- propagation between two real repositories: C18 ------------------------
//
// The upstream repository is built in the in-memory store and exported to disk
// after every upstream action; the downstream repository lives on disk only
// and is changed by the real propagation code and, for "downedit", by git
// plumbing.  Everything is read back with NUL-delimited git plumbing, never
// with gitinterface's parsers.

type pEntry struct {
	P []string `json:"p"`
	B int      `json:"b"`
	M string   `json:"m"`
}

type pDir struct {
	Up    []string `json:"up"`
	Down  []string `json:"down"`
	Slash bool     `json:"slash"`
}

type pAct struct {
	A    string   `json:"a"`
	Tree []pEntry `json:"tree"`
	What string   `json:"what"`
	Dirs []pDir   `json:"dirs"`
}

type pScn struct {
	Init []pEntry `json:"init"`
	Acts []pAct   `json:"acts"`
}

type pLog struct {
	Upidx    int  `json:"upidx"`    // position of the named upstream entry in the upstream log's reference entries (0 = unknown)
	TargetOK bool `json:"targetok"` // the entry names the commit that was the reference's tip when it was recorded
	LocOK    bool `json:"locok"`    // names the directive's upstream location
	RefOK    bool `json:"refok"`
}

type pObs struct {
	Tree    []pEntry `json:"tree"`
	Junk    []string `json:"junk"` // paths that are not the concrete spelling of any abstract path
	Commits int      `json:"commits"`
	Log     []pLog   `json:"log"`
	Err     string   `json:"err"`
}

type pLine struct {
	ID    int               `json:"id"`
	Scn   pScn              `json:"scn"`
	Names map[string]string `json:"names"`
	Obs   []pObs            `json:"obs"`
	Err   string            `json:"err"`
}

var pModes = map[string]string{"f": "100644", "x": "100755", "l": "120000"}
var pModeOf = map[string]string{"100644": "f", "100755": "x", "120000": "l"}

// concrete component names; "odd" components take a seeded odd spelling
func pNames(seed int64, id int) map[string]string {
	n := map[string]string{"r": "root.txt", "s": "src", "f": "file.go", "t": "tools", "g": "gen.sh", "keep": "KEEP", "exe": "run.sh", "lnk": "link",
		"v": "vendor", "old": "old.txt", "vx": "vendorx", "y": "y.txt", "w": "third", "p": "party", "local": "local.txt"}
	odd := []string{"a file.txt", "tab\there", "q\"uote", "\"lead", "back\\slash", "ctl\x01x", "é", "日本語", "star*.c", "[set]", " lead", "trail ", "del\x7f"}
	k := int(seed) + id
	n["odd"] = odd[k%len(odd)]
	n["oddd"] = "D" + odd[(k/3+5)%len(odd)]
	// now and then directory and ordinary file names are odd as well
	if k%4 == 1 {
		n["s"] = "s " + odd[(k/4)%len(odd)]
	}
	if k%5 == 2 {
		n["old"] = odd[(k/5+2)%len(odd)]
	}
	if k%7 == 3 {
		n["v"], n["vx"] = "ven dor", "ven dorx"
	}
	return n
}

func pPath(n map[string]string, comps []string) string {
	out := make([]string, len(comps))
	for i, c := range comps {
		out[i] = n[c]
	}
	return strings.Join(out, "/")
}

func pBlob(b int, m string) []byte {
	if m == "l" {
		return []byte(fmt.Sprintf("target-%d", b))
	}
	return []byte(fmt.Sprintf("blob %d\n", b))
}

func gitRaw(dir string, stdin []byte, env []string, args ...string) ([]byte, error) {
	cmd := exec.Command("git", args...)
	cmd.Dir = dir
	cmd.Env = append(append(os.Environ(), "GIT_CONFIG_GLOBAL=/dev/null", "GIT_CONFIG_SYSTEM=/dev/null",
		"GIT_AUTHOR_NAME=verif", "GIT_AUTHOR_EMAIL=verif@example.com", "GIT_COMMITTER_NAME=verif", "GIT_COMMITTER_EMAIL=verif@example.com"), env...)
	if stdin != nil {
		cmd.Stdin = bytes.NewReader(stdin)
	}
	var stderr bytes.Buffer
	cmd.Stderr = &stderr
	out, err := cmd.Output()
	if err != nil {
		return out, fmt.Errorf("git %s: %v: %s", strings.Join(args, " "), err, stderr.String())
	}
	return out, nil
}

// pBlobNumber maps the object id of every blob the scenarios use back to its number.
var pBlobNumber = func() map[string]int {
	m := map[string]int{}
	s := memstore.New()
	for b := 0; b < 64; b++ {
		for _, mode := range []string{"f", "l"} {
			id, _ := s.Handle().WriteBlob(pBlob(b, mode))
			m[id.String()] = b
		}
	}
	return m
}()

const pRef = "refs/heads/main"
const pUpLoc = "https://example.com/upstream"

func runPropagationScn(id int, scn pScn, seed int64, base string) (line pLine) {
	if (id+int(seed))%2 == 0 {
		// every other scenario runs without executable files and symbolic links
		plain := func(es []pEntry) {
			for i := range es {
				es[i].M = "f"
			}
		}
		plain(scn.Init)
		for _, a := range scn.Acts {
			plain(a.Tree)
		}
	}
	line = pLine{ID: id, Scn: scn, Names: pNames(seed, id), Obs: []pObs{}}
	names := line.Names
	fail := func(err error) pLine { line.Err = err.Error(); return line }
	rev := map[string][]string{} // concrete path -> abstract components (filled as paths are created)
	note := func(comps []string) string {
		p := pPath(names, comps)
		rev[p] = comps
		return p
	}
	upDir, downDir := filepath.Join(base, fmt.Sprintf("u%d", id)), filepath.Join(base, fmt.Sprintf("d%d", id))
	defer os.RemoveAll(upDir)
	defer os.RemoveAll(downDir)
	for _, d := range []string{upDir, downDir} {
		if err := os.MkdirAll(d, 0o755); err != nil {
			return fail(err)
		}
		if _, err := gitRaw(d, nil, nil, "init", "-q", "--bare", "-b", "main", "."); err != nil {
			return fail(err)
		}
	}
	writeTree := func(s *memstore.Store, es []pEntry) (githash.Hash, error) {
		h := s.Handle()
		var tes []gitstore.TreeEntry
		modes := map[string]string{}
		for _, e := range es {
			blob, _ := h.WriteBlob(pBlob(e.B, e.M))
			p := note(e.P)
			tes = append(tes, gitstore.TreeEntry{Path: p, ID: blob, Kind: gitstore.KindBlob})
			modes[p] = pModes[e.M]
		}
		return s.WriteTreeModes(tes, modes)
	}
	// upstream
	up := memstore.New()
	var upTip, upRSL githash.Hash
	var upEntryIDs []string // ids of upstream reference entries, in order
	upNum := 0
	appendUp := func(text string) (githash.Hash, error) {
		empty, _ := up.Handle().EmptyTree()
		var parents []githash.Hash
		if upRSL != nil {
			parents = []githash.Hash{upRSL}
		}
		idh, err := up.MakeCommit(empty, parents, text, nil)
		if err != nil {
			return nil, err
		}
		upRSL = idh
		up.RawSetRef(conc.RSLRef, idh)
		return idh, up.ExportTo(upDir)
	}
	// downstream: initial commit and a first reference entry, then exported once
	down := memstore.New()
	dt, err := writeTree(down, scn.Init)
	if err != nil {
		return fail(err)
	}
	dc, err := down.MakeCommit(dt, nil, "initial downstream commit", nil)
	if err != nil {
		return fail(err)
	}
	down.RawSetRef(pRef, dc)
	empty, _ := down.Handle().EmptyTree()
	de, err := down.MakeCommit(empty, nil, fmt.Sprintf("RSL Reference Entry\n\nref: %s\ntargetID: %s\nnumber: 1", pRef, dc.String()), nil)
	if err != nil {
		return fail(err)
	}
	down.RawSetRef(conc.RSLRef, de)
	if err := down.ExportTo(downDir); err != nil {
		return fail(err)
	}
	upRepo, err := gitinterface.LoadRepository(upDir)
	if err != nil {
		return fail(err)
	}
	downRepo, err := gitinterface.LoadRepository(downDir)
	if err != nil {
		return fail(err)
	}

	observe := func(callErr error) pObs {
		o := pObs{Tree: []pEntry{}, Junk: []string{}, Log: []pLog{}}
		if callErr != nil {
			o.Err = callErr.Error()
		}
		tip := proj.RefTipGit(downDir, pRef)
		out, err := gitRaw(downDir, nil, nil, "ls-tree", "-r", "-z", "--full-tree", tip)
		if err != nil {
			o.Err += " | " + err.Error()
			return o
		}
		for _, recd := range strings.Split(string(out), "\x00") {
			if recd == "" {
				continue
			}
			info, p, _ := strings.Cut(recd, "\t")
			f := strings.Fields(info)
			comps, ok := rev[p]
			if !ok {
				o.Junk = append(o.Junk, p)
				continue
			}
			m, okm := pModeOf[f[0]]
			if !okm {
				m = f[0]
			}
			b, okb := pBlobNumber[f[2]]
			if !okb {
				b = -1
			}
			o.Tree = append(o.Tree, pEntry{P: comps, B: b, M: m})
		}
		sort.Slice(o.Tree, func(i, j int) bool { return strings.Join(o.Tree[i].P, "/") < strings.Join(o.Tree[j].P, "/") })
		revs, _ := gitRaw(downDir, nil, nil, "rev-list", "--first-parent", tip)
		onRef := map[string]bool{}
		for _, c := range strings.Fields(string(revs)) {
			onRef[c] = true
		}
		o.Commits = len(onRef)
		entries, err := proj.WalkRSLGit(downDir)
		if err != nil {
			o.Err += " | " + err.Error()
			return o
		}
		for _, e := range entries {
			if e.K != "prop" {
				continue
			}
			l := pLog{TargetOK: onRef[e.Target], LocOK: e.Up == pUpLoc, RefOK: e.Ref == pRef}
			for i, uid := range upEntryIDs {
				if uid == e.UpEntry {
					l.Upidx = i + 1
				}
			}
			o.Log = append(o.Log, l)
		}
		return o
	}
	var last pObs
	for _, a := range scn.Acts {
		var callErr error
		switch a.A {
		case "upcommit":
			t, err := writeTree(up, a.Tree)
			if err != nil {
				return fail(err)
			}
			var parents []githash.Hash
			if upTip != nil {
				parents = []githash.Hash{upTip}
			}
			upTip, err = up.MakeCommit(t, parents, fmt.Sprintf("upstream commit %d", len(upEntryIDs)+1), nil)
			if err != nil {
				return fail(err)
			}
			up.RawSetRef(pRef, upTip)
			upNum++
			eid, err := appendUp(fmt.Sprintf("RSL Reference Entry\n\nref: %s\ntargetID: %s\nnumber: %d", pRef, upTip.String(), upNum))
			if err != nil {
				return fail(err)
			}
			upEntryIDs = append(upEntryIDs, eid.String())
		case "upskip":
			if len(upEntryIDs) > 0 {
				upNum++
				if _, err := appendUp(fmt.Sprintf("RSL Annotation Entry\n\nentryID: %s\nskip: true\nnumber: %d", upEntryIDs[len(upEntryIDs)-1], upNum)); err != nil {
					return fail(err)
				}
			}
		case "downedit":
			comps, blob := []string{"keep"}, 20
			if a.What == "inside" {
				comps, blob = []string{"v", "local"}, 30
			} else {
				c, _ := gitRaw(downDir, nil, nil, "rev-list", "--count", pRef)
				n := 0
				fmt.Sscanf(strings.TrimSpace(string(c)), "%d", &n)
				blob = 20 + n
			}
			idx := []string{"GIT_INDEX_FILE=" + filepath.Join(downDir, "verif-index")}
			tip := proj.RefTipGit(downDir, pRef)
			bid, err := gitRaw(downDir, pBlob(blob, "f"), nil, "hash-object", "-w", "--stdin")
			if err != nil {
				return fail(err)
			}
			if _, err := gitRaw(downDir, nil, idx, "read-tree", tip); err != nil {
				return fail(err)
			}
			if _, err := gitRaw(downDir, nil, idx, "update-index", "--add", "--cacheinfo", "100644,"+strings.TrimSpace(string(bid))+","+note(comps)); err != nil {
				return fail(err)
			}
			tr, err := gitRaw(downDir, nil, idx, "write-tree")
			if err != nil {
				return fail(err)
			}
			c, err := gitRaw(downDir, nil, nil, "commit-tree", "-p", tip, "-m", "downstream edit", strings.TrimSpace(string(tr)))
			if err != nil {
				return fail(err)
			}
			if _, err := gitRaw(downDir, nil, nil, "update-ref", pRef, strings.TrimSpace(string(c))); err != nil {
				return fail(err)
			}
			os.Remove(filepath.Join(downDir, "verif-index"))
		case "propagate":
			var ds []tuf.PropagationDirective
			for i, d := range a.Dirs {
				dp := pPath(names, d.Down)
				if d.Slash {
					dp += "/"
				}
				// the grafted paths become known spellings
				for _, ue := range lastUpTree(scn, a) {
					if len(ue.P) > len(d.Up) && equalStrs(ue.P[:len(d.Up)], d.Up) {
						note(append(append([]string{}, d.Down...), ue.P[len(d.Up):]...))
					}
				}
				ds = append(ds, tufv02.NewPropagationDirective(fmt.Sprintf("dir-%d", i), pUpLoc, pRef, pPath(names, d.Up), pRef, dp))
			}
			func() {
				defer func() {
					if x := recover(); x != nil {
						callErr = fmt.Errorf("panic: %v", x)
					}
				}()
				callErr = propagation.PropagateChangesFromUpstreamRepository(downRepo, upRepo, ds, false)
			}()
		}
		if a.A == "upcommit" || a.A == "upskip" {
			if len(line.Obs) == 0 {
				last = observe(nil)
			}
			last.Err = ""
			line.Obs = append(line.Obs, last) // the downstream repository was not touched
			continue
		}
		last = observe(callErr)
		line.Obs = append(line.Obs, last)
	}
	return line
}

// lastUpTree: every upstream tree committed before action a (any of them may be the source)
func lastUpTree(scn pScn, upTo pAct) []pEntry {
	var all []pEntry
	for _, a := range scn.Acts {
		if a.A == "upcommit" {
			all = append(all, a.Tree...)
		}
	}
	return all
}

func equalStrs(a, b []string) bool {
	if len(a) != len(b) {
		return false
	}
	for i := range a {
		if a[i] != b[i] {
			return false
		}
	}
	return true
}

// Propagation replays the action sequences of scnPath on pairs of real repositories.
func Propagation(scnPath, outPath string, seed int64, limit int) error {
	scns, err := hx.ReadNDJSONInto[pScn](scnPath)
	if err != nil {
		return err
	}
	if limit > 0 && len(scns) > limit {
		r := hx.Rand(seed)
		r.Shuffle(len(scns), func(i, j int) { scns[i], scns[j] = scns[j], scns[i] })
		scns = scns[:limit]
	}
	base, err := os.MkdirTemp("", "verif-prop-")
	if err != nil {
		return err
	}
	defer os.RemoveAll(base)
	out := make([]pLine, len(scns))
	parallel(len(scns), func(i int) { out[i] = runPropagationScn(i+1, scns[i], seed, base) })
	w, err := hx.NewWriter(outPath)
	if err != nil {
		return err
	}
	defer w.Close()
	for _, l := range out {
		w.Write(l)
	}
	return nil
}
