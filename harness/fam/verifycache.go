package fam

import (
	"context"
	"fmt"
	"sort"

	"github.com/gittuf/gittuf/internal/cache"
	"github.com/gittuf/gittuf/internal/policy"
	"github.com/gittuf/gittuf/pkg/githash"
	"github.com/gittuf/gittuf/verifharness/hx"
)

// ---- C08: verdicts must not depend on the persistent cache -----------------

type vcAct struct {
	A    string `json:"a"`
	E    vEntry `json:"e"`
	Mode string `json:"mode"`
	Ref  string `json:"ref"`
}

type vcScn struct {
	Acts []vcAct `json:"acts"`
}

type vcStep struct {
	Res       string `json:"res"` // verify: result with the repository's cache state
	Tip       int    `json:"tip"`
	Twin      string `json:"twin"` // verify: result on a cache-less copy of the same repository
	TwinTip   int    `json:"twinTip"`
	RefsMoved bool   `json:"refsMoved"` // verify: some reference other than the cache ref changed
	CacheOn   bool   `json:"cacheOn"`
	Err       string `json:"err,omitempty"`
}

func (r *vRepo) verifyWith(mode, ref string) vRes {
	var res vRes
	func() {
		defer func() {
			if x := recover(); x != nil {
				res = vRes{Res: "panic", Msg: fmt.Sprint(x)}
			}
		}()
		v := policy.NewPolicyVerifier(r.s.Handle())
		var tip githash.Hash
		var err error
		if mode == "full" {
			tip, err = v.VerifyRefFull(context.Background(), fullRef(ref))
		} else {
			tip, err = v.VerifyRef(context.Background(), fullRef(ref))
		}
		res = vRes{Res: verifyErrClass(err)}
		if err == nil {
			res.Tip = r.posOfTarget(tip)
		} else {
			res.Msg = err.Error()
		}
	}()
	return res
}

func refsSansCache(m map[string]string) string {
	keys := make([]string, 0, len(m))
	for k := range m {
		if k != cache.Ref {
			keys = append(keys, k)
		}
	}
	sort.Strings(keys)
	out := ""
	for _, k := range keys {
		out += k + "=" + m[k] + ";"
	}
	return out
}

func runVerifyCacheScn(scn vcScn, pols map[string]vPolicy, seed int64) ([]vcStep, error) {
	r := newVRepo(seed, pols)
	// every scenario starts from the model's initial log: one policy entry A
	t := true
	if err := r.add(1, vEntry{K: "pol", V: "A", Cv: &t, Sv: &t}); err != nil {
		return nil, err
	}
	pos := 1
	hasRef := map[string]bool{}
	steps := []vcStep{}
	for _, a := range scn.Acts {
		st := vcStep{}
		switch a.A {
		case "grow":
			pos++
			if err := r.add(pos, a.E); err != nil {
				return nil, err
			}
			if a.E.K == "ref" || a.E.K == "prop" {
				hasRef[a.E.Ref] = true
			}
		case "populate":
			if err := cache.PopulatePersistentCache(r.s.Handle()); err != nil {
				st.Err = err.Error()
			}
		case "delete":
			_ = cache.DeletePersistentCache(r.s.Handle())
		case "verify":
			if !hasRef[a.Ref] {
				st.Res, st.Twin = "none", "none"
				break
			}
			twin := &vRepo{s: r.s.Clone(), seed: r.seed, pols: r.pols, targets: r.targets, ids: r.ids, trees: r.trees}
			twin.s.RawSetRef(cache.Ref, nil)
			tw := twin.verifyWith(a.Mode, a.Ref)
			before := refsSansCache(r.s.Refs())
			res := r.verifyWith(a.Mode, a.Ref)
			st.Res, st.Tip, st.Twin, st.TwinTip = res.Res, res.Tip, tw.Res, tw.Tip
			st.RefsMoved = refsSansCache(r.s.Refs()) != before
		}
		st.CacheOn = r.s.RawRef(cache.Ref) != nil
		steps = append(steps, st)
	}
	return steps, nil
}

// VerifyCache replays action sequences.
func VerifyCache(scnPath, polPath, outPath string, seed int64, limit int) error {
	scns, err := hx.ReadNDJSONInto[vcScn](scnPath)
	if err != nil {
		return err
	}
	polRecs, err := hx.ReadNDJSONInto[struct {
		Pol map[string]vPolicy `json:"pol"`
	}](polPath)
	if err != nil || len(polRecs) == 0 {
		return fmt.Errorf("policy table: %v", err)
	}
	if limit > 0 && len(scns) > limit {
		rg := hx.Rand(seed)
		rg.Shuffle(len(scns), func(i, j int) { scns[i], scns[j] = scns[j], scns[i] })
		scns = scns[:limit]
	}
	wr, err := hx.NewWriter(outPath)
	if err != nil {
		return err
	}
	defer wr.Close()
	type line struct {
		ID    int      `json:"id"`
		Scn   vcScn    `json:"scn"`
		Steps []vcStep `json:"steps"`
		Err   string   `json:"err"`
	}
	out := make([]line, len(scns))
	parallel(len(scns), func(i int) {
		steps, err := runVerifyCacheScn(scns[i], polRecs[0].Pol, seed)
		l := line{ID: i + 1, Scn: scns[i], Steps: steps}
		if err != nil {
			l.Err, l.Steps = err.Error(), []vcStep{}
		}
		out[i] = l
	})
	for _, l := range out {
		wr.Write(l)
	}
	return nil
}
