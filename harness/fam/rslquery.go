// Package fam holds one replay/record driver per property family.
package fam

import (
	"errors"
	"fmt"
	"sort"

	"github.com/gittuf/gittuf/pkg/githash"
	"github.com/gittuf/gittuf/pkg/rsl"
	"github.com/gittuf/gittuf/verifharness/conc"
	"github.com/gittuf/gittuf/verifharness/hx"
	"github.com/gittuf/gittuf/verifharness/memstore"
)

// RSL reader error classes, same codes as RSL.tla
func rslErrCode(err error) int {
	switch {
	case err == nil:
		return 0
	case errors.Is(err, rsl.ErrRSLBranchDetected):
		return -2
	case errors.Is(err, rsl.ErrInvalidRSLEntry):
		return -3
	case errors.Is(err, rsl.ErrInvalidGetLatestReferenceUpdaterEntryOptions):
		return -4
	case errors.Is(err, rsl.ErrCannotUseEntryNumberFilter):
		return -5
	case errors.Is(err, rsl.ErrInvalidUntilEntryNumberCondition):
		return -6
	case errors.Is(err, rsl.ErrRSLEntryNotFound):
		return -1
	}
	return -9
}

type rslQuery struct {
	Op    string `json:"op"`
	Ref   string `json:"ref"`
	Bid   int    `json:"bid"`
	Bnum  int    `json:"bnum"`
	Uid   int    `json:"uid"`
	Unum  int    `json:"unum"`
	Unsk  bool   `json:"unsk"`
	Nong  bool   `json:"nong"`
	Isref bool   `json:"isref"`
	Prepo string `json:"prepo"`
	F     int    `json:"f"`
	L     int    `json:"l"`
	I     int    `json:"i"`
}

type rslObs struct {
	E    int     `json:"e"`
	Anns []int   `json:"anns"`
	Es   []int   `json:"es"`
	AnnS [][]int `json:"annS"`
	Msg  string  `json:"msg,omitempty"`
}

type rslQO struct {
	Q   rslQuery `json:"q"`
	Obs rslObs   `json:"obs"`
}

type rslScn struct {
	Chain    []conc.AbsEntry `json:"chain"`
	Tampered bool            `json:"tampered"`
}

func annPositions(anns []*rsl.AnnotationEntry, pos map[string]int) []int {
	out := []int{}
	for _, a := range anns {
		out = append(out, pos[a.GetID().String()])
	}
	sort.Ints(out)
	return out
}

// enumerate the model's query space for a chain of length n with numbers nums
func rslQueries(chain []conc.AbsEntry) []rslQuery {
	n := len(chain)
	numSet := map[int]bool{0: true, n + 2: true}
	for _, e := range chain {
		numSet[e.Num] = true
	}
	var nums []int
	for k := range numSet {
		nums = append(nums, k)
	}
	sort.Ints(nums)
	var qs []rslQuery
	type bound struct{ id, num int }
	var befores, untils []bound
	for p := 0; p <= n+1; p++ {
		befores = append(befores, bound{p, 0})
	}
	for p := 0; p <= n; p++ {
		untils = append(untils, bound{p, 0})
	}
	for _, x := range nums {
		if x != 0 {
			befores = append(befores, bound{0, x})
			untils = append(untils, bound{0, x})
		}
	}
	for _, ref := range []string{"", "refs/heads/main", "refs/gittuf/policy"} {
		for _, b := range befores {
			for _, u := range untils {
				for flags := 0; flags < 8; flags++ {
					for _, prepo := range []string{"", "u1"} {
						qs = append(qs, rslQuery{Op: "latest", Ref: ref, Bid: b.id, Bnum: b.num, Uid: u.id, Unum: u.num,
							Unsk: flags&1 != 0, Nong: flags&2 != 0, Isref: flags&4 != 0, Prepo: prepo})
					}
				}
			}
		}
	}
	// statically invalid: both before / both until set
	qs = append(qs, rslQuery{Op: "latest", Bid: 1, Bnum: 1}, rslQuery{Op: "latest", Uid: 1, Unum: 1})
	for _, ref := range []string{"", "refs/heads/main", "refs/gittuf/policy", "refs/heads/none"} {
		qs = append(qs, rslQuery{Op: "first", Ref: ref})
	}
	for f := 1; f <= n; f++ {
		for l := f; l <= n; l++ {
			if chain[f-1].K == "ann" || chain[f-1].K == "garb" || chain[l-1].K == "ann" || chain[l-1].K == "garb" {
				continue
			}
			for _, ref := range []string{"", "refs/heads/main"} {
				qs = append(qs, rslQuery{Op: "range", F: f, L: l, Ref: ref})
			}
		}
	}
	for i := 2; i < n; i++ {
		if chain[i-1].K != "garb" {
			qs = append(qs, rslQuery{Op: "ngparent", I: i})
		}
	}
	return qs
}

func runRSLQuery(h *memstore.Handle, q rslQuery, ids []githash.Hash, pos map[string]int) (obs rslObs) {
	defer func() {
		if r := recover(); r != nil {
			obs = rslObs{E: -99, Msg: fmt.Sprint("panic: ", r)}
		}
	}()
	idOf := func(p int) githash.Hash {
		if p >= 1 && p < len(ids) {
			return ids[p]
		}
		return conc.FakeHash(fmt.Sprintf("not-in-chain-%d", p))
	}
	switch q.Op {
	case "latest":
		var opts []rsl.GetLatestReferenceUpdaterEntryOption
		if q.Ref != "" {
			opts = append(opts, rsl.ForReference(q.Ref))
		}
		if q.Bid != 0 {
			opts = append(opts, rsl.BeforeEntryID(idOf(q.Bid)))
		}
		if q.Bnum != 0 {
			opts = append(opts, rsl.BeforeEntryNumber(uint64(q.Bnum)))
		}
		if q.Uid != 0 {
			opts = append(opts, rsl.UntilEntryID(idOf(q.Uid)))
		}
		if q.Unum != 0 {
			opts = append(opts, rsl.UntilEntryNumber(uint64(q.Unum)))
		}
		if q.Unsk {
			opts = append(opts, rsl.IsUnskipped())
		}
		if q.Nong {
			opts = append(opts, rsl.ForNonGittufReference())
		}
		if q.Isref {
			opts = append(opts, rsl.IsReferenceEntry())
		}
		if q.Prepo != "" {
			opts = append(opts, rsl.IsPropagationEntryForRepository(q.Prepo))
		}
		e, anns, err := rsl.GetLatestReferenceUpdaterEntry(h, opts...)
		if err != nil {
			return rslObs{E: rslErrCode(err), Anns: []int{}, Msg: err.Error()}
		}
		return rslObs{E: pos[e.GetID().String()], Anns: annPositions(anns, pos)}
	case "first":
		e, anns, err := rsl.GetFirstReferenceUpdaterEntryForRef(h, q.Ref)
		if err != nil {
			return rslObs{E: rslErrCode(err), Anns: []int{}, Msg: err.Error()}
		}
		return rslObs{E: pos[e.GetID().String()], Anns: annPositions(anns, pos)}
	case "ngparent":
		ent, err := rsl.GetEntry(h, idOf(q.I))
		if err != nil {
			return rslObs{E: rslErrCode(err), Anns: []int{}, Msg: err.Error()}
		}
		e, anns, err := rsl.GetNonGittufParentReferenceUpdaterEntryForEntry(h, ent)
		if err != nil {
			return rslObs{E: rslErrCode(err), Anns: []int{}, Msg: err.Error()}
		}
		return rslObs{E: pos[e.GetID().String()], Anns: annPositions(anns, pos)}
	case "range":
		es, annMap, err := rsl.GetReferenceUpdaterEntriesInRangeForRef(h, idOf(q.F), idOf(q.L), q.Ref)
		if err != nil {
			return rslObs{E: rslErrCode(err), Es: []int{}, AnnS: [][]int{}, Msg: err.Error()}
		}
		o := rslObs{Es: []int{}, AnnS: [][]int{}}
		for _, e := range es {
			o.Es = append(o.Es, pos[e.GetID().String()])
			o.AnnS = append(o.AnnS, annPositions(annMap[e.GetID().String()], pos))
		}
		return o
	}
	return rslObs{E: -98, Msg: "unknown op"}
}

// RSLQuery replays chain scenarios against pkg/rsl's readers.  For each chain
// it evaluates nq queries sampled with the seed (nq <= 0: all of them) and
// writes one trace line per chain.
func RSLQuery(scnPath, outPath string, seed int64, nq int) error {
	scns, err := hx.ReadNDJSONInto[rslScn](scnPath)
	if err != nil {
		return err
	}
	w, err := hx.NewWriter(outPath)
	if err != nil {
		return err
	}
	defer w.Close()
	rng := hx.Rand(seed)
	for si, scn := range scns {
		s := memstore.New()
		ids, err := conc.BuildChain(s, scn.Chain, nil, nil)
		if err != nil {
			return err
		}
		pos := map[string]int{}
		for p := 1; p < len(ids); p++ {
			pos[ids[p].String()] = p
		}
		qs := rslQueries(scn.Chain)
		if nq > 0 && len(qs) > nq {
			rng.Shuffle(len(qs), func(i, j int) { qs[i], qs[j] = qs[j], qs[i] })
			qs = qs[:nq]
		}
		h := s.Handle()
		line := struct {
			ID    int             `json:"id"`
			Chain []conc.AbsEntry `json:"chain"`
			QS    []rslQO         `json:"qs"`
		}{ID: si + 1, Chain: scn.Chain}
		for _, q := range qs {
			obs := runRSLQuery(h, q, ids, pos)
			obs.Msg = ""
			if obs.Anns == nil {
				obs.Anns = []int{}
			}
			if obs.Es == nil {
				obs.Es = []int{}
			}
			if obs.AnnS == nil {
				obs.AnnS = [][]int{}
			}
			line.QS = append(line.QS, rslQO{Q: q, Obs: obs})
		}
		w.Write(line)
	}
	return nil
}
