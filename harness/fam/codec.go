package fam

import (
	"fmt"
	"math/rand"
	"strconv"
	"strings"

	"github.com/gittuf/gittuf/pkg/githash"
	"github.com/gittuf/gittuf/pkg/rsl"
	"github.com/gittuf/gittuf/verifharness/conc"
	"github.com/gittuf/gittuf/verifharness/hx"
	"github.com/gittuf/gittuf/verifharness/memstore"
)

// ---- C14: RSL entry text codec --------------------------------------------

type codecTok struct {
	K  string `json:"k"`
	Ok bool   `json:"ok"`
	V  int    `json:"v"`
}

type codecText struct {
	Hdr  string     `json:"hdr"`
	Sep  bool       `json:"sep"`
	Body []codecTok `json:"body"`
}

type codecObs struct {
	Acc   bool   `json:"acc"`
	Kind  string `json:"kind"`
	Ref   int    `json:"ref"`
	Tid   int    `json:"tid"`
	Num   int    `json:"num"`
	Eids  []int  `json:"eids"`
	Skip  int    `json:"skip"`
	Upr   int    `json:"upr"`
	Upe   int    `json:"upe"`
	Msg   string `json:"msg"`
	Panic bool   `json:"panic"`
}

type codecLine struct {
	ID   int       `json:"id"`
	Mode string    `json:"mode"` // "parse" | "record" | "fuzz"
	T    codecText `json:"t"`
	Obs  codecObs  `json:"obs"`
	Has2 bool      `json:"has2"` // canonical re-serialisation was obtained
	T2   codecText `json:"t2"`
	Obs2 codecObs  `json:"obs2"`
	E    *codecObs `json:"e,omitempty"` // record mode: the entry that was recorded
	Msg0 string    `json:"msg0"`        // record mode: message recorded
	Raw  string    `json:"raw,omitempty"`
}

const (
	hdrRef  = "RSL Reference Entry"
	hdrAnn  = "RSL Annotation Entry"
	hdrProp = "RSL Propagation Entry"
	beginM  = "-----BEGIN MESSAGE-----"
	endM    = "-----END MESSAGE-----"
)

// value tables: abstract value <-> concrete string. Index 0 unused.
type codecVals struct {
	refs   map[string]int
	hashes map[string]int // lower-case hex
	uprs   map[string]int
	next   map[string]int
}

func newCodecVals() *codecVals {
	return &codecVals{refs: map[string]int{}, hashes: map[string]int{}, uprs: map[string]int{}, next: map[string]int{"ref": 1, "hash": 1, "upr": 1}}
}

func (cv *codecVals) id(tbl map[string]int, kind, s string) int {
	if v, ok := tbl[s]; ok {
		return v
	}
	v := cv.next[kind]
	cv.next[kind]++
	tbl[s] = v
	return v
}

func isHexID(s string) bool {
	if len(s) != 40 && len(s) != 64 {
		return false
	}
	for _, c := range s {
		if !(c >= '0' && c <= '9' || c >= 'a' && c <= 'f' || c >= 'A' && c <= 'F') {
			return false
		}
	}
	return true
}

// lex maps an arbitrary text to the token model (independent of pkg/rsl).
func (cv *codecVals) lex(text string) codecText {
	lines := strings.Split(text, "\n")
	t := codecText{Hdr: "none", Body: []codecTok{}}
	switch {
	case lines[0] == hdrRef:
		t.Hdr = "ref"
	case lines[0] == hdrAnn:
		t.Hdr = "ann"
	case lines[0] == hdrProp:
		t.Hdr = "prop"
	case strings.HasPrefix(text, hdrRef):
		t.Hdr = "refx"
	case strings.HasPrefix(text, hdrAnn):
		t.Hdr = "annx"
	case strings.HasPrefix(text, hdrProp):
		t.Hdr = "propx"
	}
	if len(lines) < 2 {
		return t
	}
	t.Sep = strings.TrimSpace(lines[1]) == ""
	for _, raw := range lines[2:] {
		line := strings.TrimSpace(raw)
		if line == beginM {
			t.Body = append(t.Body, codecTok{K: "begin", Ok: true})
			continue
		}
		key, value, ok := strings.Cut(line, ":")
		if !ok {
			t.Body = append(t.Body, codecTok{K: "nocolon", Ok: true})
			continue
		}
		key, value = strings.TrimSpace(key), strings.TrimSpace(value)
		switch key {
		case "ref":
			t.Body = append(t.Body, codecTok{K: "ref", Ok: true, V: cv.id(cv.refs, "ref", value)})
		case "targetID", "entryID", "upstreamEntryID":
			k := map[string]string{"targetID": "tid", "entryID": "eid", "upstreamEntryID": "upe"}[key]
			if isHexID(value) {
				t.Body = append(t.Body, codecTok{K: k, Ok: true, V: cv.id(cv.hashes, "hash", strings.ToLower(value))})
			} else {
				t.Body = append(t.Body, codecTok{K: k, Ok: false, V: 9})
			}
		case "number":
			n, err := strconv.ParseUint(value, 10, 64)
			if err != nil || n > 1<<30 {
				// numbers beyond 2^30 are legal for the parser; keep them out of the int model as "ok" big values
				if err == nil {
					t.Body = append(t.Body, codecTok{K: "num", Ok: true, V: 1 << 30})
				} else {
					t.Body = append(t.Body, codecTok{K: "num", Ok: false, V: 9})
				}
			} else {
				t.Body = append(t.Body, codecTok{K: "num", Ok: true, V: int(n)})
			}
		case "skip":
			switch value {
			case "true":
				t.Body = append(t.Body, codecTok{K: "skip", Ok: true, V: 1})
			case "false":
				t.Body = append(t.Body, codecTok{K: "skip", Ok: true, V: 0})
			default:
				t.Body = append(t.Body, codecTok{K: "skip", Ok: false, V: 9})
			}
		case "upstreamRepository":
			t.Body = append(t.Body, codecTok{K: "upr", Ok: true, V: cv.id(cv.uprs, "upr", value)})
		default:
			t.Body = append(t.Body, codecTok{K: "unk", Ok: true})
		}
	}
	return t
}

func (cv *codecVals) project(e rsl.Entry, err error) codecObs {
	o := codecObs{Eids: []int{}}
	if err != nil || e == nil {
		return o
	}
	o.Acc = true
	hv := func(h githash.Hash) int {
		if v, ok := cv.hashes[h.String()]; ok {
			return v
		}
		return -1
	}
	sv := func(tbl map[string]int, s string) int {
		if v, ok := tbl[s]; ok {
			return v
		}
		return -1
	}
	num := func(n uint64) int {
		if n > 1<<30 {
			return 1 << 30
		}
		return int(n)
	}
	switch x := e.(type) {
	case *rsl.ReferenceEntry:
		o.Kind, o.Ref, o.Tid, o.Num = "ref", sv(cv.refs, x.RefName), hv(x.TargetID), num(x.Number)
	case *rsl.AnnotationEntry:
		o.Kind, o.Num, o.Msg = "ann", num(x.Number), x.Message
		if x.Skip {
			o.Skip = 1
		}
		for _, id := range x.RSLEntryIDs {
			o.Eids = append(o.Eids, hv(id))
		}
	case *rsl.PropagationEntry:
		o.Kind, o.Ref, o.Tid, o.Num = "prop", sv(cv.refs, x.RefName), hv(x.TargetID), num(x.Number)
		o.Upr, o.Upe = sv(cv.uprs, x.UpstreamRepository), hv(x.UpstreamEntryID)
	default:
		o.Kind = "unknown"
	}
	return o
}

func parseSafe(text string) (e rsl.Entry, err error, panicked bool) {
	defer func() {
		if r := recover(); r != nil {
			panicked, e, err = true, nil, fmt.Errorf("panic: %v", r)
		}
	}()
	e, err = rsl.ParseEntryText(conc.FakeHash("entry-under-test"), text)
	return
}

// codecWorld: a store holding two real entries (so that annotations naming
// them can be re-recorded) and the value tables built around them.
type codecWorld struct {
	s      *memstore.Store
	cv     *codecVals
	refStr [3]string
	hashes [3]string // [1]: 40-hex id of a real entry, [2]: second real entry
	hash64 string
	uprStr [3]string
}

func newCodecWorld() *codecWorld {
	w := &codecWorld{s: memstore.New(), cv: newCodecVals()}
	ids, err := conc.BuildChain(w.s, []conc.AbsEntry{{K: "ref", Ref: "refs/heads/base", T: 1, Num: 1}, {K: "ref", Ref: "refs/heads/base", T: 2, Num: 2}}, nil, nil)
	if err != nil {
		panic(err)
	}
	w.refStr = [3]string{"", "refs/heads/main", "refs/tags/v1.0"}
	w.hashes = [3]string{"", ids[1].String(), ids[2].String()}
	w.hash64 = strings.Repeat("ab", 32)
	w.uprStr = [3]string{"", "https://example.com:8443/org/up.git", "git@host.example:org/repo"}
	for v := 1; v <= 2; v++ {
		w.cv.id(w.cv.refs, "ref", w.refStr[v])
		w.cv.id(w.cv.hashes, "hash", w.hashes[v])
		w.cv.id(w.cv.uprs, "upr", w.uprStr[v])
	}
	return w
}

func pick(r *rand.Rand, xs ...string) string { return xs[r.Intn(len(xs))] }

func pad(r *rand.Rand, key, val string) string {
	// surface variants that TrimSpace / Cut must absorb
	switch r.Intn(6) {
	case 0:
		return "  " + key + ":" + val + "  "
	case 1:
		return key + ":\t" + val + "\r"
	case 2:
		return key + " : " + val
	default:
		return key + ": " + val
	}
}

func upperHex(r *rand.Rand, h string) string {
	if r.Intn(4) == 0 {
		return strings.ToUpper(h)
	}
	return h
}

// render concretises a token text; the lexer must map it back to the same tokens.
func (w *codecWorld) render(t codecText, r *rand.Rand) string {
	var lines []string
	switch t.Hdr {
	case "ref":
		lines = append(lines, hdrRef)
	case "ann":
		lines = append(lines, hdrAnn)
	case "prop":
		lines = append(lines, hdrProp)
	case "refx":
		lines = append(lines, hdrRef+pick(r, " ", "\r", " v2", "s"))
	case "annx":
		lines = append(lines, hdrAnn+pick(r, " ", "\r", "!"))
	case "propx":
		lines = append(lines, hdrProp+pick(r, " ", "\r", "2"))
	default:
		lines = append(lines, pick(r, "Some commit", "", " "+hdrRef, "rsl reference entry"))
	}
	if t.Sep {
		lines = append(lines, pick(r, "", "", " ", "\t", "\r"))
	} else if r.Intn(2) == 0 || len(t.Body) > 0 {
		lines = append(lines, pick(r, "x", "ref: refs/heads/main", "."))
	}
	badHash := func() string {
		return pick(r, "xyz", "", strings.Repeat("a", 39), strings.Repeat("a", 41), strings.Repeat("g", 40), strings.Repeat("0", 63))
	}
	hashOf := func(v int) string {
		if v == 1 || v == 2 {
			return upperHex(r, w.hashes[v])
		}
		return w.hash64
	}
	for _, tok := range t.Body {
		switch tok.K {
		case "ref":
			lines = append(lines, pad(r, "ref", w.refStr[tok.V]))
		case "tid", "eid", "upe":
			key := map[string]string{"tid": "targetID", "eid": "entryID", "upe": "upstreamEntryID"}[tok.K]
			if tok.Ok {
				lines = append(lines, pad(r, key, hashOf(tok.V)))
			} else {
				lines = append(lines, pad(r, key, badHash()))
			}
		case "num":
			if tok.Ok {
				lines = append(lines, pad(r, "number", pick(r, strconv.Itoa(tok.V), strconv.Itoa(tok.V), "0"+strconv.Itoa(tok.V))))
			} else {
				lines = append(lines, pad(r, "number", pick(r, "x", "", "-1", "+1", "1.0", "18446744073709551616", "0x1")))
			}
		case "skip":
			if tok.Ok {
				lines = append(lines, pad(r, "skip", map[int]string{0: "false", 1: "true"}[tok.V]))
			} else {
				lines = append(lines, pad(r, "skip", pick(r, "True", "1", "yes", "", "FALSE", "true false")))
			}
		case "upr":
			lines = append(lines, pad(r, "upstreamRepository", w.uprStr[tok.V]))
		case "unk":
			lines = append(lines, pick(r, "foo: bar", "Ref: refs/heads/main", "refs: x", ": novalue", "Number: 3", "target-id: "+w.hashes[1], "x:y:z"))
		case "nocolon":
			lines = append(lines, pick(r, "", "   ", "garbage", endM, "QUJDREVG", "-----BEGIN FOO-----", "ref refs/heads/main"))
		case "begin":
			lines = append(lines, pick(r, beginM, beginM, "  "+beginM, beginM+"\r"))
		}
	}
	return strings.Join(lines, "\n")
}

// canonical re-records a parsed entry through the real writers on a scratch
// copy of the world and returns the commit message it produced.
func (w *codecWorld) canonical(e rsl.Entry) (string, bool) {
	s := w.s.Clone()
	h := s.Handle()
	var err error
	switch x := e.(type) {
	case *rsl.ReferenceEntry:
		c := *x
		err = c.CommitWithoutNumber(h)
	case *rsl.AnnotationEntry:
		c := *x
		err = c.CommitWithoutNumber(h)
	case *rsl.PropagationEntry:
		if x.Number == 0 {
			return "", false // an unnumbered propagation entry cannot be produced by the writers
		}
		// make the tip carry number-1 so that the writer assigns x.Number
		empty, _ := h.EmptyTree()
		tipMsg := fmt.Sprintf("RSL Reference Entry\n\nref: refs/heads/pad\ntargetID: %s\nnumber: %d", w.hashes[1], x.Number-1)
		if x.Number == 1 {
			s.RawSetRef(conc.RSLRef, nil)
		} else {
			id, _ := s.MakeCommit(empty, nil, tipMsg, nil)
			s.RawSetRef(conc.RSLRef, id)
		}
		err = rsl.NewPropagationEntry(x.RefName, x.TargetID, x.UpstreamRepository, x.UpstreamEntryID).Commit(h, false)
	default:
		return "", false
	}
	if err != nil {
		return "", false
	}
	ci, err := s.CommitInfo(s.RawRef(conc.RSLRef))
	if err != nil {
		return "", false
	}
	return strings.TrimSpace(ci.Message), true
}

func (w *codecWorld) observe(text string) (codecText, codecObs, rsl.Entry) {
	t := w.cv.lex(text)
	e, err, panicked := parseSafe(text)
	o := w.cv.project(e, err)
	o.Panic = panicked
	return t, o, e
}

func (w *codecWorld) lineFor(id int, mode, text string) codecLine {
	t, o, e := w.observe(text)
	line := codecLine{ID: id, Mode: mode, T: t, Obs: o, T2: codecText{Hdr: "none", Body: []codecTok{}}, Obs2: codecObs{Eids: []int{}}}
	if o.Acc {
		if text2, ok := w.canonical(e); ok {
			line.Has2 = true
			line.T2, line.Obs2, _ = w.observe(text2)
		}
	}
	return line
}

type codecScn struct {
	Text codecText `json:"text"`
}

// CodecParse replays TLC's token texts (variants renderings each) into rsl.ParseEntryText.
func CodecParse(scnPath, outPath string, seed int64, variants int) error {
	scns, err := hx.ReadNDJSONInto[codecScn](scnPath)
	if err != nil {
		return err
	}
	wr, err := hx.NewWriter(outPath)
	if err != nil {
		return err
	}
	defer wr.Close()
	if variants <= 0 {
		variants = 1
	}
	w := newCodecWorld()
	r := hx.Rand(seed)
	id := 0
	lexMismatch := 0
	for _, sc := range scns {
		for v := 0; v < variants; v++ {
			text := w.render(sc.Text, r)
			id++
			line := w.lineFor(id, "parse", text)
			if fmt.Sprint(line.T) != fmt.Sprint(normText(sc.Text)) {
				lexMismatch++
				line.Raw = text
			}
			wr.Write(line)
		}
	}
	if lexMismatch > 0 {
		fmt.Printf("codec: %d renderings lexed to different tokens than intended (judged on the lexed tokens)\n", lexMismatch)
	}
	return nil
}

func normText(t codecText) codecText {
	if t.Body == nil {
		t.Body = []codecTok{}
	}
	return t
}

// CodecRecord records entries through the real writers and reads them back.
func CodecRecord(outPath string, seed int64) error {
	wr, err := hx.NewWriter(outPath)
	if err != nil {
		return err
	}
	defer wr.Close()
	w := newCodecWorld()
	msgs := []string{"", "plain note", "\n", "\r\n", " ", "\t \n", "  leading and trailing  ", "line1\nline2\r\nline3", beginM + "\nZm9v\n" + endM, "-----BEGIN PGP SIGNATURE-----\nabc", "trailing space  \n\n", "\x00\x01\xff binary", "skip: true\nentryID: " + w.hashes[1], strings.Repeat("long message ", 40)}
	id := 0
	hash := func(v int) githash.Hash { h, _ := githash.NewHash(w.hashes[v]); return h }
	prep := func(num int) (*memstore.Store, *memstore.Handle) {
		s := w.s.Clone()
		h := s.Handle()
		empty, _ := h.EmptyTree()
		switch {
		case num == 1:
			s.RawSetRef(conc.RSLRef, nil)
		case num == 0:
			// legacy tip: unnumbered
			idc, _ := s.MakeCommit(empty, nil, "RSL Reference Entry\n\nref: refs/heads/pad\ntargetID: "+w.hashes[1], nil)
			s.RawSetRef(conc.RSLRef, idc)
		default:
			idc, _ := s.MakeCommit(empty, nil, fmt.Sprintf("RSL Reference Entry\n\nref: refs/heads/pad\ntargetID: %s\nnumber: %d", w.hashes[1], num-1), nil)
			s.RawSetRef(conc.RSLRef, idc)
		}
		return s, h
	}
	emit := func(s *memstore.Store, e codecObs, msg string, err error) {
		id++
		if err != nil {
			wr.Write(codecLine{ID: id, Mode: "record", T: codecText{Hdr: "none", Body: []codecTok{}}, Obs: codecObs{Eids: []int{}}, T2: codecText{Hdr: "none", Body: []codecTok{}}, Obs2: codecObs{Eids: []int{}}, E: &e, Msg0: msg, Raw: "record failed: " + err.Error()})
			return
		}
		ci, _ := s.CommitInfo(s.RawRef(conc.RSLRef))
		text := strings.TrimSpace(ci.Message)
		line := w.lineFor(id, "record", text)
		line.E, line.Msg0 = &e, msg
		wr.Write(line)
	}
	for _, num := range []int{1, 2, 3} {
		for ref := 1; ref <= 2; ref++ {
			for tid := 1; tid <= 2; tid++ {
				s, h := prep(num)
				err := rsl.NewReferenceEntry(w.refStr[ref], hash(tid)).Commit(h, false)
				emit(s, codecObs{Acc: true, Kind: "ref", Ref: ref, Tid: tid, Num: num, Eids: []int{}}, "", err)
				for upr := 1; upr <= 2; upr++ {
					s, h := prep(num)
					err := rsl.NewPropagationEntry(w.refStr[ref], hash(tid), w.uprStr[upr], hash(1)).Commit(h, false)
					emit(s, codecObs{Acc: true, Kind: "prop", Ref: ref, Tid: tid, Upr: upr, Upe: 1, Num: num, Eids: []int{}}, "", err)
				}
			}
		}
		for _, eids := range [][]int{{1}, {2}, {1, 2}, {2, 1}, {1, 1}} {
			for skip := 0; skip <= 1; skip++ {
				for _, msg := range msgs {
					s, h := prep(num)
					var ids []githash.Hash
					for _, v := range eids {
						ids = append(ids, hash(v))
					}
					err := rsl.NewAnnotationEntry(ids, skip == 1, msg).Commit(h, false)
					emit(s, codecObs{Acc: true, Kind: "ann", Eids: eids, Skip: skip, Num: num}, msg, err)
				}
			}
		}
	}
	// legacy (unnumbered) writers
	for ref := 1; ref <= 2; ref++ {
		s, h := prep(0)
		err := rsl.NewReferenceEntry(w.refStr[ref], hash(1)).CommitWithoutNumber(h)
		emit(s, codecObs{Acc: true, Kind: "ref", Ref: ref, Tid: 1, Num: 0, Eids: []int{}}, "", err)
		s, h = prep(0)
		err = rsl.NewAnnotationEntry([]githash.Hash{hash(1)}, true, "legacy").CommitWithoutNumber(h)
		emit(s, codecObs{Acc: true, Kind: "ann", Eids: []int{1}, Skip: 1, Num: 0}, "legacy", err)
	}
	_ = seed
	return nil
}

// CodecFuzz feeds structured mutations of valid texts and raw random bytes.
func CodecFuzz(outPath string, seed int64, n int) error {
	wr, err := hx.NewWriter(outPath)
	if err != nil {
		return err
	}
	defer wr.Close()
	w := newCodecWorld()
	r := hx.Rand(seed)
	valid := func() string {
		switch r.Intn(3) {
		case 0:
			return fmt.Sprintf("%s\n\nref: %s\ntargetID: %s\nnumber: %d", hdrRef, w.refStr[1+r.Intn(2)], w.hashes[1+r.Intn(2)], 1+r.Intn(3))
		case 1:
			t := fmt.Sprintf("%s\n\nentryID: %s\n", hdrAnn, w.hashes[1+r.Intn(2)])
			if r.Intn(2) == 0 {
				t += fmt.Sprintf("entryID: %s\n", w.hashes[1+r.Intn(2)])
			}
			t += fmt.Sprintf("skip: %v\nnumber: %d", r.Intn(2) == 0, 1+r.Intn(3))
			if r.Intn(2) == 0 {
				t += "\n" + beginM + "\nZm9vYmFy\n" + endM
			}
			return t
		default:
			return fmt.Sprintf("%s\n\nref: %s\ntargetID: %s\nupstreamRepository: %s\nupstreamEntryID: %s\nnumber: %d", hdrProp, w.refStr[1+r.Intn(2)], w.hashes[1+r.Intn(2)], w.uprStr[1+r.Intn(2)], w.hashes[1], 1+r.Intn(3))
		}
	}
	mutate := func(t string) string {
		lines := strings.Split(t, "\n")
		for k := 0; k < 1+r.Intn(3); k++ {
			if len(lines) == 0 {
				break
			}
			i := r.Intn(len(lines))
			switch r.Intn(9) {
			case 0: // duplicate a line
				lines = append(lines[:i+1], lines[i:]...)
			case 1: // delete a line
				lines = append(lines[:i], lines[i+1:]...)
			case 2: // swap two lines
				j := r.Intn(len(lines))
				lines[i], lines[j] = lines[j], lines[i]
			case 3: // insert a line from another valid text
				o := strings.Split(valid(), "\n")
				ins := o[r.Intn(len(o))]
				lines = append(lines[:i], append([]string{ins}, lines[i:]...)...)
			case 4: // flip a byte
				if len(lines[i]) > 0 {
					b := []byte(lines[i])
					b[r.Intn(len(b))] ^= byte(1 << uint(r.Intn(8)))
					lines[i] = string(b)
				}
			case 5: // truncate the line
				if len(lines[i]) > 0 {
					lines[i] = lines[i][:r.Intn(len(lines[i]))]
				}
			case 6: // whitespace noise
				lines[i] = pick(r, " ", "\t", "\r", "") + lines[i] + pick(r, " ", "\r", "\t", "")
			case 7: // add a trailing newline / blank line
				lines = append(lines, "")
			case 8: // change case of the key
				lines[i] = strings.ToUpper(lines[i][:len(lines[i])/2]) + lines[i][len(lines[i])/2:]
			}
		}
		return strings.Join(lines, "\n")
	}
	for id := 1; id <= n; id++ {
		var text string
		switch {
		case id%10 == 0:
			b := make([]byte, r.Intn(200))
			r.Read(b)
			text = string(b)
		case id%10 == 1:
			b := make([]byte, r.Intn(60))
			r.Read(b)
			text = pick(r, hdrRef, hdrAnn, hdrProp) + "\n\n" + string(b)
		default:
			text = mutate(valid())
		}
		wr.Write(w.lineFor(id, "fuzz", text))
	}
	return nil
}
