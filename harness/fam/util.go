package fam

import (
	"encoding/base64"
	"encoding/pem"
	"strings"

	"github.com/gittuf/gittuf/pkg/githash"
)

func mustHash(s string) githash.Hash {
	h, err := githash.NewHash(s)
	if err != nil {
		return nil
	}
	return h
}

func trim(s string) string { return strings.TrimSpace(s) }

// containsPEM reports whether text carries a PEM block whose bytes equal want.
func containsPEM(text, want string) bool {
	blk, _ := pem.Decode([]byte(text))
	if blk != nil && string(blk.Bytes) == want {
		return true
	}
	return strings.Contains(text, base64.StdEncoding.EncodeToString([]byte(want)))
}
