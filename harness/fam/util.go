package fam

import (
	"encoding/base64"
	"encoding/pem"
	"strings"

	"github.com/gittuf/gittuf/pkg/githash"
)

func mustHash(s string) githash.Hash {
	h, err := githash.NewHash(s)
	if err != nil {
		return nil
	}
	return h
}

func trim(s string) string { return strings.TrimSpace(s) }

// containsPEM reports whether text carries a PEM block whose bytes equal want.
func containsPEM(text, want string) bool {
	blk, _ := pem.Decode([]byte(text))
	if blk != nil && string(blk.Bytes) == want {
		return true
	}
	return strings.Contains(text, base64.StdEncoding.EncodeToString([]byte(want)))
}

// parallel runs f(0..n-1) on up to 16 goroutines.
func parallel(n int, f func(i int)) {
	sem := make(chan struct{}, 16)
	done := make(chan struct{})
	go func() {
		for i := 0; i < n; i++ {
			sem <- struct{}{}
			go func(i int) {
				defer func() { <-sem }()
				f(i)
			}(i)
		}
		for k := 0; k < cap(sem); k++ {
			sem <- struct{}{}
		}
		close(done)
	}()
	<-done
}
