package fam

import (
	"context"
	"errors"
	"fmt"
	"os"
	"os/exec"
	"path/filepath"

	"github.com/gittuf/gittuf/experimental/gittuf"
	rootopts "github.com/gittuf/gittuf/experimental/gittuf/options/root"
	trustpolicyopts "github.com/gittuf/gittuf/experimental/gittuf/options/trustpolicy"
	"github.com/gittuf/gittuf/internal/policy"
	sshsv "github.com/gittuf/gittuf/internal/signerverifier/ssh"
	"github.com/gittuf/gittuf/verifharness/conc"
	"github.com/gittuf/gittuf/verifharness/hx"
	"github.com/gittuf/gittuf/verifharness/proj"
)

// ---- C12: policy writer side through the repository API (real Git) -----------

type paOp struct {
	Op  string `json:"op"`
	S   string `json:"s"`
	K   string `json:"k"`
	Thr int    `json:"thr"`
}

type paScn struct {
	Ops []paOp `json:"ops"`
}

type paStep struct {
	Ok          bool   `json:"ok"`
	Unauth      bool   `json:"unauth"`      // refused with ErrUnauthorizedKey
	PolicyMoved bool   `json:"policyMoved"` // refs/gittuf/policy changed during the step
	Descends    bool   `json:"descends"`    // new policy tip descends from the old one
	Logged      bool   `json:"logged"`      // the latest log entry for the policy ref names the new tip
	EqStaging   bool   `json:"eqStaging"`   // policy tip == staging tip after the step
	Loads       bool   `json:"loads"`       // LoadCurrentState(policy) succeeds after the step (or no policy yet)
	HasPolicy   bool   `json:"hasPolicy"`
	Msg         string `json:"msg,omitempty"`
}

func gitRun(dir string, args ...string) (string, error) {
	cmd := exec.Command("git", args...)
	cmd.Dir = dir
	cmd.Env = append(os.Environ(), "GIT_CONFIG_GLOBAL=/dev/null", "GIT_CONFIG_SYSTEM=/dev/null",
		"GIT_AUTHOR_NAME=verif", "GIT_AUTHOR_EMAIL=verif@example.com", "GIT_COMMITTER_NAME=verif", "GIT_COMMITTER_EMAIL=verif@example.com")
	out, err := cmd.CombinedOutput()
	return string(out), err
}

func newGitRepo(dir string) error {
	if out, err := gitRun(dir, "init", "-q", "-b", "main", "."); err != nil {
		return fmt.Errorf("git init: %v %s", err, out)
	}
	for _, kv := range [][2]string{{"user.name", "verif"}, {"user.email", "verif@example.com"}, {"commit.gpgsign", "false"}} {
		if out, err := gitRun(dir, "config", kv[0], kv[1]); err != nil {
			return fmt.Errorf("git config: %v %s", err, out)
		}
	}
	return nil
}

func runPolicyApplyScn(scn paScn, seed int64, workdir string) ([]paStep, error) {
	ctx := context.Background()
	if err := os.MkdirAll(workdir, 0o755); err != nil {
		return nil, err
	}
	defer os.RemoveAll(workdir)
	repoDir := filepath.Join(workdir, "repo")
	os.MkdirAll(repoDir, 0o755)
	if err := newGitRepo(repoDir); err != nil {
		return nil, err
	}
	signers := map[string]*sshsv.Signer{}
	signer := func(name string) (*sshsv.Signer, error) {
		if s, ok := signers[name]; ok {
			return s, nil
		}
		k := conc.GetKey(seed, "root-"+name)
		p := filepath.Join(workdir, "key-"+name)
		if err := os.WriteFile(p, k.PEM, 0o600); err != nil {
			return nil, err
		}
		s, err := sshsv.NewSignerFromFile(p)
		if err != nil {
			return nil, err
		}
		signers[name] = s
		return s, nil
	}
	repo, err := gittuf.LoadRepository(repoDir)
	if err != nil {
		return nil, err
	}
	g := repo.GetGitRepository()
	tip := func(ref string) string {
		h, err := g.GetReference(ref)
		if err != nil {
			return ""
		}
		return h.String()
	}
	steps := []paStep{}
	withEntry := trustpolicyopts.WithRSLEntry()
	for i, op := range scn.Ops {
		before := tip(policy.PolicyRef)
		var err error
		s, serr := signer(op.S)
		if op.S == "" {
			s, serr = signer("a")
		}
		if serr != nil {
			return nil, serr
		}
		switch op.Op {
		case "Init":
			err = repo.InitializeRoot(ctx, s, false, rootopts.WithRSLEntry())
		case "AddRootKey":
			ks, e := signer(op.K)
			if e != nil {
				return nil, e
			}
			err = repo.AddRootKey(ctx, s, conc.TufKeyFromSSLib(ks.MetadataKey()), false, withEntry)
		case "RemoveRootKey":
			ks, e := signer(op.K)
			if e != nil {
				return nil, e
			}
			kid, _ := ks.KeyID()
			err = repo.RemoveRootKey(ctx, s, kid, false, withEntry)
		case "UpdateRootThreshold":
			err = repo.UpdateRootThreshold(ctx, s, op.Thr, false, withEntry)
		case "SignRoot":
			err = repo.SignRoot(ctx, s, false, withEntry)
		case "Apply":
			err = repo.ApplyPolicy(ctx, "", true, false)
		case "Discard":
			err = repo.DiscardPolicy()
		case "TamperStaging", "TamperPolicy":
			ref := policy.PolicyStagingRef
			if op.Op == "TamperPolicy" {
				ref = policy.PolicyRef
			}
			cur, e := g.GetReference(ref)
			if e != nil {
				err = e
				break
			}
			tree, e := g.GetCommitTreeID(cur)
			if e != nil {
				return nil, e
			}
			// a commit nobody recorded in the log, on top of the current tip
			out, e := gitRun(repoDir, "commit-tree", "-p", cur.String(), "-m", fmt.Sprintf("tampered %d", i), tree.String())
			if e != nil {
				return nil, fmt.Errorf("commit-tree: %v %s", e, out)
			}
			if out2, e := gitRun(repoDir, "update-ref", ref, trim(out)); e != nil {
				return nil, fmt.Errorf("update-ref: %v %s", e, out2)
			}
		default:
			return nil, fmt.Errorf("unknown op %q", op.Op)
		}
		st := paStep{Ok: err == nil, Unauth: errors.Is(err, gittuf.ErrUnauthorizedKey)}
		if err != nil {
			st.Msg = err.Error()
			if len(st.Msg) > 200 {
				st.Msg = st.Msg[:200]
			}
		}
		after := tip(policy.PolicyRef)
		st.HasPolicy = after != ""
		st.PolicyMoved = after != before
		if st.PolicyMoved && op.Op != "TamperPolicy" {
			st.Descends = true
			if before != "" {
				st.Descends, _ = g.KnowsCommit(mustHash(after), mustHash(before))
			}
			ents, e := proj.WalkRSLGit(repoDir)
			if e != nil {
				return nil, e
			}
			for _, en := range ents {
				if (en.K == "ref") && en.Ref == policy.PolicyRef {
					st.Logged = en.Target == after
				}
			}
		}
		st.EqStaging = after != "" && after == tip(policy.PolicyStagingRef)
		st.Loads = true
		if after != "" && op.Op != "TamperPolicy" {
			if _, e := policy.LoadCurrentState(ctx, g, policy.PolicyRef); e != nil {
				st.Loads = false
			}
		}
		steps = append(steps, st)
	}
	return steps, nil
}

// PolicyApply replays API operation sequences on real Git repositories.
func PolicyApply(scnPath, outPath string, seed int64, limit int) error {
	scns, err := hx.ReadNDJSONInto[paScn](scnPath)
	if err != nil {
		return err
	}
	if limit > 0 && len(scns) > limit {
		r := hx.Rand(seed)
		r.Shuffle(len(scns), func(i, j int) { scns[i], scns[j] = scns[j], scns[i] })
		scns = scns[:limit]
	}
	wr, err := hx.NewWriter(outPath)
	if err != nil {
		return err
	}
	defer wr.Close()
	base, err := os.MkdirTemp("", "verif-pa-")
	if err != nil {
		return err
	}
	defer os.RemoveAll(base)
	type line struct {
		ID    int      `json:"id"`
		Scn   paScn    `json:"scn"`
		Steps []paStep `json:"steps"`
		Err   string   `json:"err"`
	}
	out := make([]line, len(scns))
	parallel(len(scns), func(i int) {
		steps, err := runPolicyApplyScn(scns[i], seed, filepath.Join(base, fmt.Sprintf("s%d", i)))
		l := line{ID: i + 1, Scn: scns[i], Steps: steps}
		if err != nil {
			l.Err = err.Error()
			l.Steps = []paStep{}
		}
		out[i] = l
	})
	for _, l := range out {
		wr.Write(l)
	}
	return nil
}
