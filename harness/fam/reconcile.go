package fam

import (
	"context"
	"fmt"
	"os"
	"path/filepath"
	"strings"

	"github.com/gittuf/gittuf/experimental/gittuf"
	"github.com/gittuf/gittuf/pkg/githash"
	"github.com/gittuf/gittuf/pkg/gitstore"
	"github.com/gittuf/gittuf/verifharness/conc"
	"github.com/gittuf/gittuf/verifharness/hx"
	"github.com/gittuf/gittuf/verifharness/memstore"
	"github.com/gittuf/gittuf/verifharness/proj"
)

// ---- reconcile / sync between two real repositories: C15 -------------------

type rEntry struct {
	U    int    `json:"u"`
	K    string `json:"k"`
	Ref  string `json:"ref"`
	T    int    `json:"t"`
	Tg   []int  `json:"tg"`
	Skip bool   `json:"skip"`
}

type rScn struct {
	C    []rEntry `json:"C"`
	L    []rEntry `json:"L"`
	R    []rEntry `json:"R"`
	Kind string   `json:"kind"`
	Op   string   `json:"op"` // reconcile (default) | sync | syncow
	// sync only: where the local branch stands relative to the target of the remote log's latest unskipped entry for it
	LRef map[string]string `json:"lref"` // ref -> behind | equal | ahead | diverged | absent
}

type rMean struct {
	K    string `json:"k"`
	Ref  string `json:"ref"`
	T    int    `json:"t"`  // identity of the commit named (the u of the entry that first recorded it); -1 unknown
	Tg   []int  `json:"tg"` // positions referred to (0: not in the log)
	Skip bool   `json:"skip"`
}

type rObs struct {
	Local   []rMean        `json:"local"`
	Remote  []rMean        `json:"remote"`
	LRefs   map[string]int `json:"lrefs"` // ref -> commit number after the call (0 absent, -1 unknown)
	RRefs   map[string]int `json:"rrefs"`
	LBefore map[string]int `json:"lbefore"`
	RBefore map[string]int `json:"rbefore"`
	Err     string         `json:"err"`
	Div     []string       `json:"div"`
}

type rLine struct {
	ID  int    `json:"id"`
	Scn rScn   `json:"scn"`
	Obs rObs   `json:"obs"`
	Err string `json:"err"`
}

type rSide struct {
	s      *memstore.Store
	rslTip githash.Hash
	num    int
	tips   map[string]githash.Hash // branch -> latest recorded commit
	ids    map[int]githash.Hash    // u -> entry id
	byU    map[int]githash.Hash    // u -> commit first recorded by entry u
}

func (x *rSide) clone() *rSide {
	c := &rSide{s: x.s.Clone(), rslTip: x.rslTip, num: x.num, tips: map[string]githash.Hash{}, ids: map[int]githash.Hash{}, byU: map[int]githash.Hash{}}
	for k, v := range x.tips {
		c.tips[k] = v
	}
	for k, v := range x.byU {
		c.byU[k] = v
	}
	for k, v := range x.ids {
		c.ids[k] = v
	}
	return c
}

func (x *rSide) appendRSL(text string) (githash.Hash, error) {
	empty, _ := x.s.Handle().EmptyTree()
	var parents []githash.Hash
	if x.rslTip != nil {
		parents = []githash.Hash{x.rslTip}
	}
	id, err := x.s.MakeCommit(empty, parents, text, nil)
	if err != nil {
		return nil, err
	}
	x.rslTip = id
	x.s.RawSetRef(conc.RSLRef, id)
	return id, nil
}

// add appends abstract entry e; label receives commit id -> label for every commit created
func (x *rSide) add(e rEntry, label map[string]string) error {
	x.num++
	switch e.K {
	case "ref", "prop":
		h := x.s.Handle()
		var c githash.Hash
		if e.T != e.U {
			// the reference is reset to a commit recorded earlier
			c = x.byU[e.T]
			if c == nil {
				return fmt.Errorf("entry u%d names commit u%d, which this side never recorded", e.U, e.T)
			}
		} else {
			blob, _ := h.WriteBlob([]byte(fmt.Sprintf("content of u%d\n", e.U)))
			tree, _ := h.WriteTree([]gitstore.TreeEntry{{Path: "f", ID: blob, Kind: gitstore.KindBlob}})
			var parents []githash.Hash
			if p := x.tips[e.Ref]; p != nil {
				parents = []githash.Hash{p}
			}
			var err error
			c, err = x.s.MakeCommit(tree, parents, fmt.Sprintf("commit for u%d", e.U), nil)
			if err != nil {
				return err
			}
			x.byU[e.U] = c
			label[c.String()] = fmt.Sprintf("u%d", e.U)
		}
		x.tips[e.Ref] = c
		x.s.RawSetRef(fullRef(e.Ref), c)
		text := fmt.Sprintf("RSL Reference Entry\n\nref: %s\ntargetID: %s\nnumber: %d", fullRef(e.Ref), c.String(), x.num)
		if e.K == "prop" {
			text = fmt.Sprintf("RSL Propagation Entry\n\nref: %s\ntargetID: %s\nupstreamRepository: https://example.com/upstream\nupstreamEntryID: %s\nnumber: %d",
				fullRef(e.Ref), c.String(), conc.FakeHash(fmt.Sprintf("up-%d", e.U)).String(), x.num)
		}
		id, err := x.appendRSL(text)
		if err != nil {
			return err
		}
		x.ids[e.U] = id
	case "ann":
		lines := []string{"RSL Annotation Entry", ""}
		for _, u := range e.Tg {
			lines = append(lines, "entryID: "+x.ids[u].String())
		}
		lines = append(lines, fmt.Sprintf("skip: %v", e.Skip), fmt.Sprintf("number: %d", x.num))
		id, err := x.appendRSL(strings.Join(lines, "\n"))
		if err != nil {
			return err
		}
		x.ids[e.U] = id
	default:
		return fmt.Errorf("unknown entry kind %q", e.K)
	}
	return nil
}

func rMeaning(dir string, label map[string]string) ([]rMean, error) {
	es, err := proj.WalkRSLGit(dir)
	if err != nil {
		return nil, err
	}
	out := []rMean{}
	for _, e := range es {
		m := rMean{K: e.K, Ref: strings.TrimPrefix(e.Ref, "refs/heads/"), T: 0, Tg: append([]int{}, e.Tg...), Skip: e.Skip}
		if e.K == "ref" || e.K == "prop" {
			m.T = -1
			if l, ok := label[e.Target]; ok {
				fmt.Sscanf(l, "u%d", &m.T)
			}
		}
		out = append(out, m)
	}
	return out, nil
}

func rRefs(dir string, label map[string]string) map[string]int {
	out := map[string]int{}
	for _, r := range []string{"main", "feat"} {
		tip := proj.RefTipGit(dir, fullRef(r))
		n := -1
		switch {
		case tip == "":
			n = 0
		case strings.HasPrefix(label[tip], "u"):
			fmt.Sscanf(label[tip], "u%d", &n)
		case label[tip] == "ahead-main":
			n = 101
		case label[tip] == "ahead-feat":
			n = 102
		case label[tip] == "fork-main":
			n = 201
		case label[tip] == "fork-feat":
			n = 202
		}
		out[r] = n
	}
	return out
}

func runReconcileScn(id int, scn rScn, base string) (line rLine) {
	line = rLine{ID: id, Scn: scn}
	fail := func(err error) rLine { line.Err = err.Error(); return line }
	label := map[string]string{}
	common := &rSide{s: memstore.New(), tips: map[string]githash.Hash{}, ids: map[int]githash.Hash{}, byU: map[int]githash.Hash{}}
	for _, e := range scn.C {
		if err := common.add(e, label); err != nil {
			return fail(err)
		}
	}
	local, remote := common.clone(), common.clone()
	remote.s.Clock += 5000 // the two sides never produce byte-identical entries
	for _, e := range scn.L {
		if err := local.add(e, label); err != nil {
			return fail(err)
		}
	}
	for _, e := range scn.R {
		if err := remote.add(e, label); err != nil {
			return fail(err)
		}
	}
	// sync scenarios: place the local branches relative to what the remote log records
	for ref, st := range scn.LRef {
		rt := remote.tips[ref]
		if rt == nil || len(scn.R) == 0 {
			continue
		}
		h := local.s.Handle()
		mk := func(parent githash.Hash, tag string) githash.Hash {
			blob, _ := h.WriteBlob([]byte("extra " + tag + " " + ref + "\n"))
			tree, _ := h.WriteTree([]gitstore.TreeEntry{{Path: "f", ID: blob, Kind: gitstore.KindBlob}})
			var ps []githash.Hash
			if parent != nil {
				ps = []githash.Hash{parent}
			}
			c, _ := local.s.MakeCommit(tree, ps, "unrecorded "+tag, nil)
			label[c.String()] = tag + "-" + ref
			return c
		}
		switch st {
		case "absent":
			local.s.RawDeleteRef(fullRef(ref))
		case "ahead":
			// needs the remote tip's history locally: copy the remote commit objects
			local.s.ImportFrom(remote.s)
			local.s.RawSetRef(fullRef(ref), mk(rt, "ahead"))
		case "equal":
			local.s.ImportFrom(remote.s)
			local.s.RawSetRef(fullRef(ref), rt)
		case "diverged":
			local.s.RawSetRef(fullRef(ref), mk(common.tips[ref], "fork"))
		case "behind":
			// stays where the local log left it (the shared or local-only state)
		}
	}

	rdir, ldir := filepath.Join(base, fmt.Sprintf("r%d", id)), filepath.Join(base, fmt.Sprintf("l%d", id))
	defer os.RemoveAll(rdir)
	defer os.RemoveAll(ldir)
	for _, d := range []string{rdir, ldir} {
		if err := os.MkdirAll(d, 0o755); err != nil {
			return fail(err)
		}
		if _, err := gitRaw(d, nil, nil, "init", "-q", "--bare", "-b", "main", "."); err != nil {
			return fail(err)
		}
	}
	if err := remote.s.ExportTo(rdir); err != nil {
		return fail(err)
	}
	if err := local.s.ExportTo(ldir); err != nil {
		return fail(err)
	}
	if _, err := gitRaw(ldir, nil, nil, "remote", "add", "origin", rdir); err != nil {
		return fail(err)
	}
	repo, err := gittuf.LoadRepository(ldir)
	if err != nil {
		return fail(err)
	}
	obs := rObs{LBefore: rRefs(ldir, label), RBefore: rRefs(rdir, label), Div: []string{}}
	func() {
		defer func() {
			if x := recover(); x != nil {
				obs.Err = fmt.Sprintf("panic: %v", x)
			}
		}()
		var err error
		switch scn.Op {
		case "sync", "syncow":
			var div []string
			div, err = repo.Sync(context.Background(), "origin", scn.Op == "syncow", false)
			for _, d := range div {
				obs.Div = append(obs.Div, strings.TrimPrefix(d, "refs/heads/"))
			}
		default:
			err = repo.ReconcileLocalRSLWithRemote(context.Background(), "origin", false)
		}
		if err != nil {
			obs.Err = err.Error()
		}
	}()
	if obs.Local, err = rMeaning(ldir, label); err != nil {
		return fail(err)
	}
	if obs.Remote, err = rMeaning(rdir, label); err != nil {
		return fail(err)
	}
	obs.LRefs, obs.RRefs = rRefs(ldir, label), rRefs(rdir, label)
	line.Obs = obs
	return line
}

// Reconcile replays the scenarios of scnPath on pairs of real repositories.
func Reconcile(scnPath, outPath string, seed int64, limit int) error {
	scns, err := hx.ReadNDJSONInto[rScn](scnPath)
	if err != nil {
		return err
	}
	if limit > 0 && len(scns) > limit {
		r := hx.Rand(seed)
		r.Shuffle(len(scns), func(i, j int) { scns[i], scns[j] = scns[j], scns[i] })
		scns = scns[:limit]
	}
	// every pair of logs is reconciled, and synchronised twice (without and with overwrite) under a seeded placement of the local branches
	states := []string{"behind", "equal", "ahead", "diverged", "absent"}
	var all []rScn
	for i, sc := range scns {
		if sc.Op != "" {
			// a fixed witness: the operation and the branch placement are given
			all = append(all, sc)
			continue
		}
		sc.Op = "reconcile"
		all = append(all, sc)
		k := i + int(seed)
		for j, op := range []string{"sync", "syncow"} {
			v := sc
			v.Op = op
			v.LRef = map[string]string{"main": states[(k+j)%5], "feat": states[(k/5+2*j)%5]}
			all = append(all, v)
		}
	}
	scns = all
	base, err := os.MkdirTemp("", "verif-rec-")
	if err != nil {
		return err
	}
	defer os.RemoveAll(base)
	out := make([]rLine, len(scns))
	parallel(len(scns), func(i int) { out[i] = runReconcileScn(i+1, scns[i], base) })
	w, err := hx.NewWriter(outPath)
	if err != nil {
		return err
	}
	defer w.Close()
	for _, l := range out {
		w.Write(l)
	}
	return nil
}
