package fam

import (
	"errors"
	"fmt"

	"github.com/gittuf/gittuf/pkg/githash"
	"github.com/gittuf/gittuf/pkg/gitstore"
	"github.com/gittuf/gittuf/pkg/rsl"
	"github.com/gittuf/gittuf/verifharness/conc"
	"github.com/gittuf/gittuf/verifharness/hx"
	"github.com/gittuf/gittuf/verifharness/memstore"
	"github.com/gittuf/gittuf/verifharness/proj"
)

// ---- automatic skip after a history rewrite (part of C03) -------------------

type asEntry struct {
	K   string `json:"k"`
	Ref string `json:"ref"`
	E   int    `json:"e"`
	N   int    `json:"n"`
	Tg  []int  `json:"tg"`
}

type asScn struct {
	Log []asEntry `json:"log"`
}

type asApp struct {
	K    string `json:"k"`
	Tg   []int  `json:"tg"`
	Skip bool   `json:"skip"`
}

type asLine struct {
	ID         int       `json:"id"`
	Log        []asEntry `json:"log"`
	Ref        string    `json:"ref"`
	Res        string    `json:"res"` // ok | notfound | other
	Appended   []asApp   `json:"appended"`
	PrefixKept bool      `json:"prefixkept"` // the log before the call is a prefix of the log after it
	NumOK      bool      `json:"numok"`      // numbers are consecutive and every entry has one parent
	Err        string    `json:"err"`
	Msg        string    `json:"msg"`
}

func runAutoSkip(id int, scn asScn, ref string) (line asLine) {
	line = asLine{ID: id, Log: scn.Log, Ref: ref, Appended: []asApp{}}
	s := memstore.New()
	h := s.Handle()
	// commits: line e is a chain c(e,1) <- c(e,2) with its own root
	commits := map[[2]int]githash.Hash{}
	commit := func(e, n int) githash.Hash {
		var parent githash.Hash
		for k := 1; k <= n; k++ {
			if c, ok := commits[[2]int{e, k}]; ok {
				parent = c
				continue
			}
			blob, _ := h.WriteBlob([]byte(fmt.Sprintf("line %d commit %d\n", e, k)))
			tree, _ := h.WriteTree([]gitstore.TreeEntry{{Path: "f", ID: blob, Kind: gitstore.KindBlob}})
			var ps []githash.Hash
			if parent != nil {
				ps = []githash.Hash{parent}
			}
			c, _ := s.MakeCommit(tree, ps, fmt.Sprintf("c%d.%d", e, k), nil)
			commits[[2]int{e, k}] = c
			parent = c
		}
		return parent
	}
	var tip githash.Hash
	ids := []githash.Hash{nil}
	empty, _ := h.EmptyTree()
	for i, e := range scn.Log {
		var text string
		switch e.K {
		case "ref":
			text = fmt.Sprintf("RSL Reference Entry\n\nref: %s\ntargetID: %s\nnumber: %d", fullRef(e.Ref), commit(e.E, e.N).String(), i+1)
		case "prop":
			text = fmt.Sprintf("RSL Propagation Entry\n\nref: %s\ntargetID: %s\nupstreamRepository: https://example.com/up\nupstreamEntryID: %s\nnumber: %d",
				fullRef(e.Ref), commit(e.E, e.N).String(), conc.FakeHash("up").String(), i+1)
		default:
			text = "RSL Annotation Entry\n\n"
			for _, p := range e.Tg {
				text += "entryID: " + ids[p].String() + "\n"
			}
			text += fmt.Sprintf("skip: true\nnumber: %d", i+1)
		}
		var ps []githash.Hash
		if tip != nil {
			ps = []githash.Hash{tip}
		}
		c, err := s.MakeCommit(empty, ps, text, nil)
		if err != nil {
			line.Err = err.Error()
			return line
		}
		tip = c
		ids = append(ids, c)
		s.RawSetRef(conc.RSLRef, c)
	}
	before, err := proj.WalkRSL(s)
	if err != nil {
		line.Err = err.Error()
		return line
	}
	func() {
		defer func() {
			if x := recover(); x != nil {
				line.Res, line.Msg = "other", fmt.Sprint("panic: ", x)
			}
		}()
		err := rsl.SkipAllInvalidReferenceEntriesForRef(s.Handle(), fullRef(ref), false)
		switch {
		case err == nil:
			line.Res = "ok"
		case errors.Is(err, rsl.ErrRSLEntryNotFound):
			line.Res = "notfound"
		default:
			line.Res, line.Msg = "other", err.Error()
		}
	}()
	after, err := proj.WalkRSL(s)
	if err != nil {
		line.Err = err.Error()
		return line
	}
	line.PrefixKept = len(after) >= len(before)
	for i := range before {
		if i < len(after) && after[i].ID != before[i].ID {
			line.PrefixKept = false
		}
	}
	line.NumOK = true
	for i, e := range after {
		if e.Num != i+1 || (i > 0 && e.NParents != 1) || e.K == "garb" {
			line.NumOK = false
		}
	}
	for _, e := range after[min(len(before), len(after)):] {
		line.Appended = append(line.Appended, asApp{K: e.K, Tg: e.Tg, Skip: e.Skip})
	}
	return line
}

// AutoSkip replays logs and runs the automatic skip for both references.
func AutoSkip(scnPath, outPath string, seed int64, limit int) error {
	scns, err := hx.ReadNDJSONInto[asScn](scnPath)
	if err != nil {
		return err
	}
	if limit > 0 && len(scns) > limit {
		r := hx.Rand(seed)
		r.Shuffle(len(scns), func(i, j int) { scns[i], scns[j] = scns[j], scns[i] })
		scns = scns[:limit]
	}
	refs := []string{"main", "feat"}
	out := make([]asLine, len(scns)*2)
	parallel(len(scns)*2, func(i int) { out[i] = runAutoSkip(i+1, scns[i/2], refs[i%2]) })
	w, err := hx.NewWriter(outPath)
	if err != nil {
		return err
	}
	defer w.Close()
	for _, l := range out {
		w.Write(l)
	}
	return nil
}
