package fam

import (
	"context"
	"encoding/base64"
	"encoding/json"
	"errors"
	"fmt"
	"sort"
	"strings"

	"github.com/gittuf/gittuf/internal/attestations"
	"github.com/gittuf/gittuf/internal/attestations/authorizations"
	"github.com/gittuf/gittuf/internal/policy"
	"github.com/gittuf/gittuf/pkg/githash"
	"github.com/gittuf/gittuf/pkg/gitstore"
	"github.com/gittuf/gittuf/pkg/rsl"
	"github.com/gittuf/gittuf/verifharness/conc"
	"github.com/gittuf/gittuf/verifharness/hx"
	"github.com/gittuf/gittuf/verifharness/memstore"
)

// ---- verifier family: C01, C07, C11 (and the base of C02, C08, C09) --------

type vVerifier struct {
	Pr  []string `json:"pr"`
	Thr int      `json:"thr"`
}
type vGthr struct {
	Refs []string `json:"refs"`
	Thr  int      `json:"thr"`
}
type vPolicy struct {
	Rules map[string][]vVerifier `json:"rules"`
	Gthr  []vGthr                `json:"gthr"`
	Cgthr []vGthr                `json:"cgthr"` // global rules contributed by a controller repository's metadata
	Bfp   []string               `json:"bfp"`
	All   []string               `json:"all"`
	Apps  hxAppMap               `json:"apps"`
	Files []vFileRule            `json:"files,omitempty"`
}

// vFileRule is a file rule (pattern already in the matcher's syntax).
type vFileRule struct {
	Pat string   `json:"pat"`
	Pr  []string `json:"pr"`
	Thr int      `json:"thr"`
}

// hxAppMap is the policy's app table (TLC renders the empty one as []).
type hxAppMap map[string]vAppDecl

func (m *hxAppMap) UnmarshalJSON(b []byte) error {
	*m = hxAppMap{}
	if len(b) > 0 && b[0] == '[' {
		return nil
	}
	tmp := map[string]vAppDecl{}
	if err := json.Unmarshal(b, &tmp); err != nil {
		return err
	}
	*m = tmp
	return nil
}

func identityOf(principal string) string { return "id-" + principal }

type vApp struct {
	Ref   string   `json:"ref"`
	From  int      `json:"from"`
	Tree  int      `json:"tree"`
	Sref  string   `json:"sref"` // what the signed statement names
	Sfrom int      `json:"sfrom"`
	Stree int      `json:"stree"`
	By    []string `json:"by"`
}

// vCr is a code-review (GitHub pull request) approval attestation.
type vCr struct {
	Ref       string   `json:"ref"`
	From      int      `json:"from"`
	Tree      int      `json:"tree"`
	Sref      string   `json:"sref"`
	Sfrom     int      `json:"sfrom"`
	Stree     int      `json:"stree"`
	App       string   `json:"app"`
	Signer    string   `json:"signer"`
	Approvers []string `json:"approvers"`
	Dismissed []string `json:"dismissed"`
}

type vAppDecl struct {
	Trusted bool   `json:"trusted"`
	Key     string `json:"key"`
}

type vEntry struct {
	K    string `json:"k"`
	V    string `json:"v"`
	Cv   *bool  `json:"cv,omitempty"` // policy entry: chain-valid (default true)
	Sv   *bool  `json:"sv,omitempty"` // policy entry: self-valid (default true)
	Ref  string `json:"ref"`
	S    string `json:"s"`
	Tree int    `json:"tree"`
	Par  int    `json:"par"`
	Tg   []int  `json:"tg"`
	Apps []vApp `json:"apps"`
	Crs  []vCr  `json:"crs"`
}

type vScn struct {
	Salt int      `json:"-"` // varies the concretisation of broken policy states between scenarios
	Fam  string   `json:"fam"`
	Log  []vEntry `json:"log"`
}

type vRes struct {
	Res string `json:"res"` // ok | none | vf | notskipped | lgskipped | nopolicy | notfound | other
	Tip int    `json:"tip"` // position whose target was reported (0 when failing)
	Msg string `json:"msg,omitempty"`
}

// vMerge is the mergeability answer for one feature tree and what verification says once each recorder records the merge.
type vMerge struct {
	Answer   string          `json:"answer"` // nosig | sig | no
	Msg      string          `json:"msg,omitempty"`
	Verifies map[string]bool `json:"verifies"`
}

type vObs struct {
	Merge  map[string]vMerge          `json:"merge,omitempty"` // tree -> ...
	Full   map[string]vRes            `json:"full"`
	Latest map[string]vRes            `json:"latest"`
	From   map[string]map[string]vRes `json:"from"`           // ref -> position -> result of VerifyRefFromEntry
	Twin   map[string]vRes            `json:"twin,omitempty"` // same history, policies without their global rules (C11)
}

func fullRef(r string) string { return "refs/heads/" + r }

func verifyErrClass(err error) string {
	switch {
	case err == nil:
		return "ok"
	case errors.Is(err, policy.ErrInvalidEntryNotSkipped):
		return "notskipped"
	case errors.Is(err, policy.ErrLastGoodEntryIsSkipped):
		return "lgskipped"
	case errors.Is(err, policy.ErrVerificationFailed), errors.Is(err, authorizations.ErrInvalidAuthorization):
		return "vf"
	case errors.Is(err, policy.ErrPolicyNotFound):
		return "nopolicy"
	case errors.Is(err, policy.ErrMetadataRollbackDetected), errors.Is(err, policy.ErrDanglingDelegationMetadata),
		strings.Contains(err.Error(), "unable to verify roots of trust"), strings.Contains(err.Error(), "invalidly signed metadata"):
		return "policyinvalid"
	case errors.Is(err, rsl.ErrRSLEntryNotFound):
		return "notfound"
	}
	if errors.Is(err, policy.ErrVerifierConditionsUnmet) {
		// raised outside verifyEntry only by the policy chain / self verification
		return "policyinvalid"
	}
	return "other"
}

func (p vPolicy) abs() *conc.AbsPolicy {
	ap := &conc.AbsPolicy{RootPr: []string{"root"}, RootThr: 1, RootSig: []string{"root"}, TgtPr: []string{"root"}, TgtThr: 1,
		Targets: &conc.AbsFile{Sig: []string{"root"}, Extra: p.All}}
	refs := make([]string, 0, len(p.Rules))
	for r := range p.Rules {
		refs = append(refs, r)
	}
	sort.Strings(refs)
	for _, r := range refs {
		for n, v := range p.Rules[r] {
			ap.Targets.Rules = append(ap.Targets.Rules, conc.AbsRule{Name: fmt.Sprintf("%s-%d", r, n+1), Pats: []string{"git:" + fullRef(r)}, Pr: v.Pr, Thr: v.Thr})
		}
	}
	for n, f := range p.Files {
		ap.Targets.Rules = append(ap.Targets.Rules, conc.AbsRule{Name: fmt.Sprintf("file-%d", n+1), Pats: []string{"file:" + f.Pat}, Pr: f.Pr, Thr: f.Thr})
	}
	for n, g := range p.Gthr {
		pats := []string{}
		for _, r := range g.Refs {
			pats = append(pats, "git:"+fullRef(r))
		}
		ap.Globals = append(ap.Globals, conc.AbsGlobal{Name: fmt.Sprintf("gthr-%d", n+1), Kind: "threshold", Pats: pats, Thr: g.Thr})
	}
	if len(p.Apps) > 0 {
		// principals become persons with a code-review identity per app
		ap.Persons = map[string]conc.AbsPerson{}
		ap.Apps = map[string]conc.AbsApp{}
		for _, pr := range p.All {
			ident := map[string]string{}
			for app := range p.Apps {
				ident[app] = identityOf(pr)
			}
			ap.Persons[pr] = conc.AbsPerson{Keys: []string{pr}, Ident: ident}
		}
		for app, d := range p.Apps {
			ap.Apps[app] = conc.AbsApp{Trusted: d.Trusted, Pr: []string{d.Key}, Thr: 1}
		}
	}
	if len(p.Bfp) > 0 {
		pats := []string{}
		for _, r := range p.Bfp {
			pats = append(pats, "git:"+fullRef(r))
		}
		ap.Globals = append(ap.Globals, conc.AbsGlobal{Name: "bfp", Kind: "bfp", Pats: pats})
	}
	return ap
}

// vRepo is a repository under construction from an abstract log.
type vRepo struct {
	s       *memstore.Store
	h       *memstore.Handle
	seed    int64
	pols    map[string]vPolicy
	targets []githash.Hash // per position: target commit of ref/prop/pol/att entries
	ids     []githash.Hash // per position: RSL entry id
	trees   map[int]githash.Hash
	polTip  githash.Hash
	attTip  githash.Hash
	num     int
	rootKey string // key name of the current root principal
	rootVer int
	nPol    int
	tgtVer  int
	subVer  int
	salt    int
	rich    bool // policy states carry a delegated rule file and use the wider set of chain / self-validity breaks
}

func newVRepo(seed int64, pols map[string]vPolicy) *vRepo {
	s := memstore.New()
	return &vRepo{s: s, h: s.Handle(), seed: seed, pols: pols, trees: map[int]githash.Hash{}, targets: []githash.Hash{nil}, ids: []githash.Hash{nil}, rootKey: "root"}
}

func (r *vRepo) keyPEM(signer string) []byte {
	if signer == "none" || signer == "" {
		return nil
	}
	return conc.GetKey(r.seed, signer).PEM
}

func (r *vRepo) tree(t int) githash.Hash {
	if id, ok := r.trees[t]; ok {
		return id
	}
	blob, _ := r.h.WriteBlob([]byte(fmt.Sprintf("content of tree %d\n", t)))
	id, _ := r.h.WriteTree([]gitstore.TreeEntry{{Path: "f", ID: blob, Kind: gitstore.KindBlob}})
	r.trees[t] = id
	return id
}

func (r *vRepo) appendRSL(text string, signer string) (githash.Hash, error) {
	empty, _ := r.h.EmptyTree()
	var parents []githash.Hash
	if tip := r.s.RawRef(conc.RSLRef); tip != nil {
		parents = []githash.Hash{tip}
	}
	id, err := r.s.MakeCommit(empty, parents, text, r.keyPEM(signer))
	if err != nil {
		return nil, err
	}
	r.s.RawSetRef(conc.RSLRef, id)
	return id, nil
}

func (r *vRepo) refEntryText(kind, ref string, target githash.Hash) string {
	r.num++
	if kind == "prop" {
		return fmt.Sprintf("RSL Propagation Entry\n\nref: %s\ntargetID: %s\nupstreamRepository: https://example.com/upstream\nupstreamEntryID: %s\nnumber: %d",
			ref, target.String(), conc.FakeHash("upstream-entry").String(), r.num)
	}
	return fmt.Sprintf("RSL Reference Entry\n\nref: %s\ntargetID: %s\nnumber: %d", ref, target.String(), r.num)
}

// add appends abstract entry e at position pos.
func (r *vRepo) add(pos int, e vEntry) error {
	var target, id githash.Hash
	var err error
	switch e.K {
	case "pol":
		p, ok := r.pols[e.V]
		if !ok {
			return fmt.Errorf("unknown policy %q", e.V)
		}
		ap := p.abs()
		if n := len(ap.Globals); n > 1 {
			// the order in which global rules are declared carries no meaning: rotate it per scenario and position
			k := (r.salt + pos) % n
			ap.Globals = append(append([]conc.AbsGlobal{}, ap.Globals[k:]...), ap.Globals[:k]...)
		}
		cv, sv := e.Cv == nil || *e.Cv, e.Sv == nil || *e.Sv
		r.nPol++
		r.rootVer++
		r.tgtVer++
		r.subVer++
		signer := r.rootKey
		// rich states carry a delegated rule file (for a reference no scenario uses), so that its rollback / removal /
		// signature can be broken too
		hasSub, subSig := r.rich, []string{"subkey"}
		if !cv && r.nPol > 1 {
			variant := (int(r.seed) + pos) % 2
			if r.rich {
				variant = (int(r.seed) + pos + r.salt) % 5
			}
			switch {
			case variant == 0 && r.rootVer > 1:
				// version rollback: the root's version number decreases
				r.rootVer -= 2
				if r.rootVer < 0 {
					r.rootVer = 0
				}
			case variant == 2:
				// the primary rule file's version decreases
				r.tgtVer -= 2
			case variant == 3:
				// a delegated rule file's version decreases while the primary rule file keeps its version
				r.tgtVer--
				r.subVer -= 2
			case variant == 4:
				// a delegated rule file disappears while the primary rule file keeps its version
				r.tgtVer--
				hasSub = false
			default:
				// the root of trust is replaced by a key the previous root principals did not sign for
				r.rootKey = fmt.Sprintf("intruder%d", pos)
				signer = r.rootKey
			}
		}
		ap.RootPr, ap.RootSig, ap.TgtPr = []string{r.rootKey}, []string{signer}, []string{r.rootKey}
		ap.RootVer = r.rootVer
		if ap.RootVer == 0 {
			ap.RootVer = -1 // BuildMetadata keeps the default (1) for 0; force an explicit 0
		}
		ap.Targets.Sig = []string{r.rootKey}
		if r.rich {
			ap.Targets.Ver = r.tgtVer + 10 // versions stay positive through rollbacks
			ap.Targets.Rules = append(ap.Targets.Rules, conc.AbsRule{Name: "sub", Pats: []string{"git:refs/heads/side"}, Pr: []string{"subkey"}, Thr: 1})
		}
		if !sv {
			variant := 0
			if r.rich {
				variant = (int(r.seed) + pos + r.salt/5) % 3
			}
			if variant == 2 && !hasSub {
				variant = 0
			}
			switch variant {
			case 1:
				// the primary rule file carries fewer signatures than its own root demands (the root's own threshold is lower)
				ap.TgtPr, ap.TgtThr = []string{r.rootKey, "tgt2"}, 2
			case 2:
				// a delegated rule file is signed by a key its delegation does not name
				subSig = []string{"stranger"}
			default:
				// the primary rule file is signed by a key its root does not name
				ap.Targets.Sig = []string{"stranger"}
			}
		}
		if hasSub {
			ap.Files = map[string]*conc.AbsFile{"sub": {Sig: subSig, Ver: r.subVer + 10,
				Rules: []conc.AbsRule{{Name: "sub-rule", Pats: []string{"git:refs/heads/side"}, Pr: []string{"subkey"}, Thr: 1}}}}
		}
		md, _ := conc.BuildMetadata(ap, r.seed)
		mdTree, err := md.WriteTree(r.h)
		if err != nil {
			return err
		}
		rootEntries := []gitstore.TreeEntry{{Path: "metadata", ID: mdTree, Kind: gitstore.KindSubtree}}
		if len(p.Cgthr) > 0 {
			// the propagated metadata of a controller repository, carrying its own global rules
			cp := &conc.AbsPolicy{RootPr: []string{"ctlroot"}, RootThr: 1, RootSig: []string{"ctlroot"}}
			for n, g := range p.Cgthr {
				pats := []string{}
				for _, rf := range g.Refs {
					pats = append(pats, "git:"+fullRef(rf))
				}
				cp.Globals = append(cp.Globals, conc.AbsGlobal{Name: fmt.Sprintf("ctl-gthr-%d", n+1), Kind: "threshold", Pats: pats, Thr: g.Thr})
			}
			cmd, _ := conc.BuildMetadata(cp, r.seed)
			cTree, err := cmd.WriteTree(r.h)
			if err != nil {
				return err
			}
			rootEntries = append(rootEntries, gitstore.TreeEntry{Path: "gittuf-controller/ctl", ID: cTree, Kind: gitstore.KindSubtree})
		}
		root, err := r.h.WriteTree(rootEntries)
		if err != nil {
			return err
		}
		var parents []githash.Hash
		if r.polTip != nil {
			parents = []githash.Hash{r.polTip}
		}
		target, err = r.s.MakeCommit(root, parents, fmt.Sprintf("policy %s at %d", e.V, pos), nil)
		if err != nil {
			return err
		}
		r.polTip = target
		r.s.RawSetRef(policy.PolicyRef, target)
		r.s.RawSetRef(policy.PolicyStagingRef, target)
		id, err = r.appendRSL(r.refEntryText("ref", policy.PolicyRef, target), "root")
	case "stg":
		target = conc.FakeHash(fmt.Sprintf("staging-%d", pos))
		if r.polTip != nil {
			target = r.polTip
		}
		id, err = r.appendRSL(r.refEntryText("ref", policy.PolicyStagingRef, target), "root")
	case "ref", "prop":
		var parents []githash.Hash
		if e.Par > 0 && e.Par < len(r.targets) && r.targets[e.Par] != nil {
			parents = []githash.Hash{r.targets[e.Par]}
		}
		target, err = r.s.MakeCommit(r.tree(e.Tree), parents, fmt.Sprintf("commit for entry %d", pos), r.keyPEM(e.S))
		if err != nil {
			return err
		}
		r.s.RawSetRef(fullRef(e.Ref), target)
		id, err = r.appendRSL(r.refEntryText(e.K, fullRef(e.Ref), target), e.S)
	case "ann":
		lines := []string{"RSL Annotation Entry", ""}
		for _, p := range e.Tg {
			lines = append(lines, "entryID: "+r.ids[p].String())
		}
		r.num++
		lines = append(lines, "skip: true", fmt.Sprintf("number: %d", r.num))
		id, err = r.appendRSL(strings.Join(lines, "\n"), e.S)
	case "att":
		entries := []gitstore.TreeEntry{}
		for _, a := range e.Apps {
			fromID := func(p int) string {
				if p > 0 && p < len(r.targets) && r.targets[p] != nil {
					return r.targets[p].String()
				}
				return githash.ZeroHash.String()
			}
			stRef, stFrom, stTree := a.Sref, a.Sfrom, a.Stree
			if stRef == "" {
				stRef, stFrom, stTree = a.Ref, a.From, a.Tree
			}
			stmt, err := attestations.NewReferenceAuthorizationForCommit(fullRef(stRef), fromID(stFrom), r.tree(stTree).String())
			if err != nil {
				return err
			}
			env := conc.MakeEnv(stmt)
			env.PayloadType = "application/vnd.gittuf+json"
			var ks []*conc.Key
			for _, b := range a.By {
				ks = append(ks, conc.GetKey(r.seed, b))
			}
			env = conc.SignEnv(env, ks...)
			b, _ := json.Marshal(env)
			blob, _ := r.h.WriteBlob(b)
			path := "reference-authorizations/" + attestations.ReferenceAuthorizationPath(fullRef(a.Ref), fromID(a.From), r.tree(a.Tree).String())
			entries = append(entries, gitstore.TreeEntry{Path: path, ID: blob, Kind: gitstore.KindBlob})
		}
		for _, c := range e.Crs {
			fromID := func(p int) string {
				if p > 0 && p < len(r.targets) && r.targets[p] != nil {
					return r.targets[p].String()
				}
				return githash.ZeroHash.String()
			}
			ids := func(ps []string) []string {
				out := []string{}
				for _, x := range ps {
					out = append(out, identityOf(x))
				}
				return out
			}
			stmt, err := attestations.NewGitHubPullRequestApprovalAttestation(fullRef(c.Sref), fromID(c.Sfrom), r.tree(c.Stree).String(), ids(c.Approvers), ids(c.Dismissed))
			if err != nil {
				return err
			}
			env := conc.SignEnv(conc.MakeEnv(stmt), conc.GetKey(r.seed, c.Signer))
			b, _ := json.Marshal(env)
			blob, _ := r.h.WriteBlob(b)
			path := "code-review-approvals/" + attestations.GitHubPullRequestApprovalAttestationPath(fullRef(c.Ref), fromID(c.From), r.tree(c.Tree).String()) +
				"/" + base64.URLEncoding.EncodeToString([]byte(c.App))
			entries = append(entries, gitstore.TreeEntry{Path: path, ID: blob, Kind: gitstore.KindBlob})
		}
		var tree githash.Hash
		if len(entries) == 0 {
			tree, _ = r.h.EmptyTree()
		} else {
			tree, err = r.h.WriteTree(entries)
			if err != nil {
				return err
			}
		}
		var parents []githash.Hash
		if r.attTip != nil {
			parents = []githash.Hash{r.attTip}
		}
		target, err = r.s.MakeCommit(tree, parents, fmt.Sprintf("attestations at %d", pos), nil)
		if err != nil {
			return err
		}
		r.attTip = target
		r.s.RawSetRef(attestations.Ref, target)
		id, err = r.appendRSL(r.refEntryText("ref", attestations.Ref, target), "root")
	default:
		return fmt.Errorf("unknown entry kind %q", e.K)
	}
	if err != nil {
		return err
	}
	r.targets = append(r.targets, target)
	r.ids = append(r.ids, id)
	return nil
}

// addPolicyState commits the given abstract policy as the next policy state and records its entry.
func (r *vRepo) addPolicyState(pos int, ap *conc.AbsPolicy) error {
	md, _ := conc.BuildMetadata(ap, r.seed)
	mdTree, err := md.WriteTree(r.h)
	if err != nil {
		return err
	}
	root, err := r.h.WriteTree([]gitstore.TreeEntry{{Path: "metadata", ID: mdTree, Kind: gitstore.KindSubtree}})
	if err != nil {
		return err
	}
	var parents []githash.Hash
	if r.polTip != nil {
		parents = []githash.Hash{r.polTip}
	}
	target, err := r.s.MakeCommit(root, parents, fmt.Sprintf("policy state at %d", pos), nil)
	if err != nil {
		return err
	}
	r.polTip = target
	r.s.RawSetRef(policy.PolicyRef, target)
	r.s.RawSetRef(policy.PolicyStagingRef, target)
	id, err := r.appendRSL(r.refEntryText("ref", policy.PolicyRef, target), "root")
	if err != nil {
		return err
	}
	r.targets = append(r.targets, target)
	r.ids = append(r.ids, id)
	return nil
}

// addRefTarget appends a reference entry for ref naming an existing commit.
func (r *vRepo) addRefTarget(ref, signer string, target githash.Hash) error {
	r.s.RawSetRef(fullRef(ref), target)
	id, err := r.appendRSL(r.refEntryText("ref", fullRef(ref), target), signer)
	if err != nil {
		return err
	}
	r.targets = append(r.targets, target)
	r.ids = append(r.ids, id)
	return nil
}

func (r *vRepo) posOfTarget(h githash.Hash) int {
	for p := len(r.targets) - 1; p >= 1; p-- {
		if r.targets[p] != nil && r.targets[p].Equal(h) {
			return p
		}
	}
	return 0
}

func (r *vRepo) verifyFull(ref string) (res vRes) {
	defer func() {
		if x := recover(); x != nil {
			res = vRes{Res: "panic", Msg: fmt.Sprint(x)}
		}
	}()
	has := false
	for p := 1; p < len(r.targets); p++ {
		_ = p
	}
	tip, err := policy.NewPolicyVerifier(r.s.Handle()).VerifyRefFull(context.Background(), fullRef(ref))
	_ = has
	cls := verifyErrClass(err)
	out := vRes{Res: cls}
	if err != nil {
		out.Msg = err.Error()
		return out
	}
	out.Tip = r.posOfTarget(tip)
	return out
}

// verifyMode: from = 0 -> VerifyRef (latest only); otherwise VerifyRefFromEntry(position from)
func (r *vRepo) verifyMode(ref string, from int) (res vRes) {
	defer func() {
		if x := recover(); x != nil {
			res = vRes{Res: "panic", Msg: fmt.Sprint(x)}
		}
	}()
	v := policy.NewPolicyVerifier(r.s.Handle())
	var tip githash.Hash
	var err error
	if from == 0 {
		tip, err = v.VerifyRef(context.Background(), fullRef(ref))
	} else {
		tip, err = v.VerifyRefFromEntry(context.Background(), fullRef(ref), r.ids[from])
	}
	out := vRes{Res: verifyErrClass(err)}
	if err != nil {
		out.Msg = err.Error()
		return out
	}
	out.Tip = r.posOfTarget(tip)
	return out
}

func (r *vRepo) clone() *vRepo {
	c := *r
	c.s = r.s.Clone()
	c.h = c.s.Handle()
	c.targets = append([]githash.Hash{}, r.targets...)
	c.ids = append([]githash.Hash{}, r.ids...)
	c.trees = map[int]githash.Hash{}
	for k, v := range r.trees {
		c.trees[k] = v
	}
	return &c
}

// mergeability: predict for a feature commit carrying `tree` on top of main's latest unskipped state, then let every
// recorder record the merge on a copy and verify it
func (r *vRepo) mergeObs(scn vScn, tree int) vMerge {
	out := vMerge{Verifies: map[string]bool{}}
	from := 0
	skipped := map[int]bool{}
	for _, e := range scn.Log {
		if e.K == "ann" {
			for _, t := range e.Tg {
				skipped[t] = true
			}
		}
	}
	for i, e := range scn.Log {
		if (e.K == "ref" && e.Ref == "main" && !skipped[i+1]) || (e.K == "prop" && e.Ref == "main") {
			from = i + 1
		}
	}
	var parents []githash.Hash
	if from > 0 {
		parents = []githash.Hash{r.targets[from]}
	}
	feature, err := r.s.MakeCommit(r.tree(tree), parents, fmt.Sprintf("feature commit with tree %d", tree), nil)
	if err != nil {
		out.Answer, out.Msg = "error", err.Error()
		return out
	}
	func() {
		defer func() {
			if x := recover(); x != nil {
				out.Answer, out.Msg = "panic", fmt.Sprint(x)
			}
		}()
		need, err := policy.NewPolicyVerifier(r.s.Handle()).VerifyMergeableForCommit(context.Background(), fullRef("main"), feature)
		switch {
		case err != nil:
			out.Answer, out.Msg = "no", err.Error()
		case need:
			out.Answer = "sig"
		default:
			out.Answer = "nosig"
		}
	}()
	for _, rec := range []string{"p1", "p2", "p3", "kU", "none"} {
		c := r.clone()
		if err := c.add(len(scn.Log)+1, vEntry{K: "ref", Ref: "main", S: rec, Tree: tree, Par: from}); err != nil {
			out.Msg += " record: " + err.Error()
			continue
		}
		out.Verifies[rec] = c.verifyMode("main", 0).Res == "ok"
	}
	return out
}

func runVerifyScn(scn vScn, pols map[string]vPolicy, strip map[string]string, seed int64) (obs vObs, err error) {
	if scn.Fam == "global" && strip != nil {
		twin := vScn{Fam: "twin", Log: append([]vEntry{}, scn.Log...)}
		for i := range twin.Log {
			if twin.Log[i].K == "pol" {
				twin.Log[i].V = strip[twin.Log[i].V]
			}
		}
		to, err := runVerifyScn(twin, pols, nil, seed)
		if err != nil {
			return obs, err
		}
		obs.Twin = to.Full
	}
	r := newVRepo(seed, pols)
	r.rich, r.salt = scn.Fam == "chain", scn.Salt
	for i, e := range scn.Log {
		if err := r.add(i+1, e); err != nil {
			return obs, fmt.Errorf("entry %d: %w", i+1, err)
		}
	}
	obs.Full, obs.Latest, obs.From = map[string]vRes{}, map[string]vRes{}, map[string]map[string]vRes{}
	if scn.Fam == "merge" {
		obs.Merge = map[string]vMerge{}
		hasMain := false
		for _, e := range scn.Log {
			if (e.K == "ref" || e.K == "prop") && e.Ref == "main" {
				hasMain = true
			}
		}
		if hasMain {
			for _, t := range []int{1, 2} {
				obs.Merge[fmt.Sprint(t)] = r.mergeObs(scn, t)
			}
		}
	}
	modes := scn.Fam == "chain" || scn.Fam == "cache"
	for _, ref := range []string{"main", "feat"} {
		has := false
		for _, e := range scn.Log {
			if (e.K == "ref" || e.K == "prop") && e.Ref == ref {
				has = true
			}
		}
		if !has {
			obs.Full[ref] = vRes{Res: "none"}
			continue
		}
		obs.Full[ref] = r.verifyFull(ref)
		if modes {
			obs.Latest[ref] = r.verifyMode(ref, 0)
			obs.From[ref] = map[string]vRes{}
			for i, e := range scn.Log {
				if e.K == "ref" && e.Ref == ref {
					obs.From[ref][fmt.Sprint(i+1)] = r.verifyMode(ref, i+1)
				}
			}
		}
	}
	return obs, nil
}

// Verify replays abstract logs against the real verifier.
func Verify(scnPath, polPath, outPath string, seed int64, limit int) error {
	scns, err := hx.ReadNDJSONInto[vScn](scnPath)
	if err != nil {
		return err
	}
	polRecs, err := hx.ReadNDJSONInto[struct {
		Pol   map[string]vPolicy `json:"pol"`
		Strip map[string]string  `json:"strip"`
	}](polPath)
	if err != nil || len(polRecs) == 0 {
		return fmt.Errorf("policy table: %v", err)
	}
	pols := polRecs[0].Pol
	if limit > 0 && len(scns) > limit {
		rg := hx.Rand(seed)
		rg.Shuffle(len(scns), func(i, j int) { scns[i], scns[j] = scns[j], scns[i] })
		scns = scns[:limit]
	}
	wr, err := hx.NewWriter(outPath)
	if err != nil {
		return err
	}
	defer wr.Close()
	type line struct {
		ID  int    `json:"id"`
		Scn vScn   `json:"scn"`
		Obs vObs   `json:"obs"`
		Err string `json:"err"`
	}
	out := make([]line, len(scns))
	parallel(len(scns), func(i int) {
		scns[i].Salt = i
		o, err := runVerifyScn(scns[i], pols, polRecs[0].Strip, seed)
		l := line{ID: i + 1, Scn: scns[i], Obs: o}
		if err != nil {
			l.Err = err.Error()
			l.Obs.Full = map[string]vRes{}
		}
		out[i] = l
	})
	for _, l := range out {
		wr.Write(l)
	}
	return nil
}
