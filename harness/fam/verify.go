package fam

import (
	"context"
	"encoding/json"
	"errors"
	"fmt"
	"sort"
	"strings"

	"github.com/gittuf/gittuf/internal/attestations"
	"github.com/gittuf/gittuf/internal/policy"
	"github.com/gittuf/gittuf/pkg/githash"
	"github.com/gittuf/gittuf/pkg/gitstore"
	"github.com/gittuf/gittuf/pkg/rsl"
	"github.com/gittuf/gittuf/verifharness/conc"
	"github.com/gittuf/gittuf/verifharness/hx"
	"github.com/gittuf/gittuf/verifharness/memstore"
)

// ---- verifier family: C01, C07, C11 (and the base of C02, C08, C09) --------

type vVerifier struct {
	Pr  []string `json:"pr"`
	Thr int      `json:"thr"`
}
type vGthr struct {
	Refs []string `json:"refs"`
	Thr  int      `json:"thr"`
}
type vPolicy struct {
	Rules map[string][]vVerifier `json:"rules"`
	Gthr  []vGthr                `json:"gthr"`
	Bfp   []string               `json:"bfp"`
	All   []string               `json:"all"`
}

type vApp struct {
	Ref  string   `json:"ref"`
	From int      `json:"from"`
	Tree int      `json:"tree"`
	By   []string `json:"by"`
	// adversarial variants (C09): statement content differs from the storage path
	StRef  string `json:"stRef,omitempty"`
	StFrom *int   `json:"stFrom,omitempty"`
	StTree *int   `json:"stTree,omitempty"`
}

type vEntry struct {
	K    string `json:"k"`
	V    string `json:"v"`
	Ref  string `json:"ref"`
	S    string `json:"s"`
	Tree int    `json:"tree"`
	Par  int    `json:"par"`
	Tg   []int  `json:"tg"`
	Apps []vApp `json:"apps"`
}

type vScn struct {
	Fam string   `json:"fam"`
	Log []vEntry `json:"log"`
}

type vRes struct {
	Res string `json:"res"` // ok | none | vf | notskipped | lgskipped | nopolicy | notfound | other
	Tip int    `json:"tip"` // position whose target was reported (0 when failing)
	Msg string `json:"msg,omitempty"`
}

type vObs struct {
	Full map[string]vRes `json:"full"`
	Twin map[string]vRes `json:"twin,omitempty"` // same history, policies without their global rules (C11)
}

func fullRef(r string) string { return "refs/heads/" + r }

func verifyErrClass(err error) string {
	switch {
	case err == nil:
		return "ok"
	case errors.Is(err, policy.ErrInvalidEntryNotSkipped):
		return "notskipped"
	case errors.Is(err, policy.ErrLastGoodEntryIsSkipped):
		return "lgskipped"
	case errors.Is(err, policy.ErrVerificationFailed), errors.Is(err, policy.ErrVerifierConditionsUnmet):
		return "vf"
	case errors.Is(err, policy.ErrPolicyNotFound):
		return "nopolicy"
	case errors.Is(err, rsl.ErrRSLEntryNotFound):
		return "notfound"
	}
	return "other"
}

func (p vPolicy) abs() *conc.AbsPolicy {
	ap := &conc.AbsPolicy{RootPr: []string{"root"}, RootThr: 1, RootSig: []string{"root"}, TgtPr: []string{"root"}, TgtThr: 1,
		Targets: &conc.AbsFile{Sig: []string{"root"}, Extra: p.All}}
	refs := make([]string, 0, len(p.Rules))
	for r := range p.Rules {
		refs = append(refs, r)
	}
	sort.Strings(refs)
	for _, r := range refs {
		for n, v := range p.Rules[r] {
			ap.Targets.Rules = append(ap.Targets.Rules, conc.AbsRule{Name: fmt.Sprintf("%s-%d", r, n+1), Pats: []string{"git:" + fullRef(r)}, Pr: v.Pr, Thr: v.Thr})
		}
	}
	for n, g := range p.Gthr {
		pats := []string{}
		for _, r := range g.Refs {
			pats = append(pats, "git:"+fullRef(r))
		}
		ap.Globals = append(ap.Globals, conc.AbsGlobal{Name: fmt.Sprintf("gthr-%d", n+1), Kind: "threshold", Pats: pats, Thr: g.Thr})
	}
	if len(p.Bfp) > 0 {
		pats := []string{}
		for _, r := range p.Bfp {
			pats = append(pats, "git:"+fullRef(r))
		}
		ap.Globals = append(ap.Globals, conc.AbsGlobal{Name: "bfp", Kind: "bfp", Pats: pats})
	}
	return ap
}

// vRepo is a repository under construction from an abstract log.
type vRepo struct {
	s       *memstore.Store
	h       *memstore.Handle
	seed    int64
	pols    map[string]vPolicy
	targets []githash.Hash // per position: target commit of ref/prop/pol/att entries
	ids     []githash.Hash // per position: RSL entry id
	trees   map[int]githash.Hash
	polTip  githash.Hash
	attTip  githash.Hash
	num     int
}

func newVRepo(seed int64, pols map[string]vPolicy) *vRepo {
	s := memstore.New()
	return &vRepo{s: s, h: s.Handle(), seed: seed, pols: pols, trees: map[int]githash.Hash{}, targets: []githash.Hash{nil}, ids: []githash.Hash{nil}}
}

func (r *vRepo) keyPEM(signer string) []byte {
	if signer == "none" || signer == "" {
		return nil
	}
	return conc.GetKey(r.seed, signer).PEM
}

func (r *vRepo) tree(t int) githash.Hash {
	if id, ok := r.trees[t]; ok {
		return id
	}
	blob, _ := r.h.WriteBlob([]byte(fmt.Sprintf("content of tree %d\n", t)))
	id, _ := r.h.WriteTree([]gitstore.TreeEntry{{Path: "f", ID: blob, Kind: gitstore.KindBlob}})
	r.trees[t] = id
	return id
}

func (r *vRepo) appendRSL(text string, signer string) (githash.Hash, error) {
	empty, _ := r.h.EmptyTree()
	var parents []githash.Hash
	if tip := r.s.RawRef(conc.RSLRef); tip != nil {
		parents = []githash.Hash{tip}
	}
	id, err := r.s.MakeCommit(empty, parents, text, r.keyPEM(signer))
	if err != nil {
		return nil, err
	}
	r.s.RawSetRef(conc.RSLRef, id)
	return id, nil
}

func (r *vRepo) refEntryText(kind, ref string, target githash.Hash) string {
	r.num++
	if kind == "prop" {
		return fmt.Sprintf("RSL Propagation Entry\n\nref: %s\ntargetID: %s\nupstreamRepository: https://example.com/upstream\nupstreamEntryID: %s\nnumber: %d",
			ref, target.String(), conc.FakeHash("upstream-entry").String(), r.num)
	}
	return fmt.Sprintf("RSL Reference Entry\n\nref: %s\ntargetID: %s\nnumber: %d", ref, target.String(), r.num)
}

// add appends abstract entry e at position pos.
func (r *vRepo) add(pos int, e vEntry) error {
	var target, id githash.Hash
	var err error
	switch e.K {
	case "pol":
		p, ok := r.pols[e.V]
		if !ok {
			return fmt.Errorf("unknown policy %q", e.V)
		}
		md, _ := conc.BuildMetadata(p.abs(), r.seed)
		mdTree, err := md.WriteTree(r.h)
		if err != nil {
			return err
		}
		root, err := r.h.WriteTree([]gitstore.TreeEntry{{Path: "metadata", ID: mdTree, Kind: gitstore.KindSubtree}})
		if err != nil {
			return err
		}
		var parents []githash.Hash
		if r.polTip != nil {
			parents = []githash.Hash{r.polTip}
		}
		target, err = r.s.MakeCommit(root, parents, fmt.Sprintf("policy %s at %d", e.V, pos), nil)
		if err != nil {
			return err
		}
		r.polTip = target
		r.s.RawSetRef(policy.PolicyRef, target)
		r.s.RawSetRef(policy.PolicyStagingRef, target)
		id, err = r.appendRSL(r.refEntryText("ref", policy.PolicyRef, target), "root")
	case "stg":
		target = conc.FakeHash(fmt.Sprintf("staging-%d", pos))
		if r.polTip != nil {
			target = r.polTip
		}
		id, err = r.appendRSL(r.refEntryText("ref", policy.PolicyStagingRef, target), "root")
	case "ref", "prop":
		var parents []githash.Hash
		if e.Par > 0 && e.Par < len(r.targets) && r.targets[e.Par] != nil {
			parents = []githash.Hash{r.targets[e.Par]}
		}
		target, err = r.s.MakeCommit(r.tree(e.Tree), parents, fmt.Sprintf("commit for entry %d", pos), r.keyPEM(e.S))
		if err != nil {
			return err
		}
		r.s.RawSetRef(fullRef(e.Ref), target)
		id, err = r.appendRSL(r.refEntryText(e.K, fullRef(e.Ref), target), e.S)
	case "ann":
		lines := []string{"RSL Annotation Entry", ""}
		for _, p := range e.Tg {
			lines = append(lines, "entryID: "+r.ids[p].String())
		}
		r.num++
		lines = append(lines, "skip: true", fmt.Sprintf("number: %d", r.num))
		id, err = r.appendRSL(strings.Join(lines, "\n"), e.S)
	case "att":
		entries := []gitstore.TreeEntry{}
		for _, a := range e.Apps {
			fromID := func(p int) string {
				if p > 0 && p < len(r.targets) && r.targets[p] != nil {
					return r.targets[p].String()
				}
				return githash.ZeroHash.String()
			}
			stRef, stFrom, stTree := a.Ref, a.From, a.Tree
			if a.StRef != "" {
				stRef = a.StRef
			}
			if a.StFrom != nil {
				stFrom = *a.StFrom
			}
			if a.StTree != nil {
				stTree = *a.StTree
			}
			stmt, err := attestations.NewReferenceAuthorizationForCommit(fullRef(stRef), fromID(stFrom), r.tree(stTree).String())
			if err != nil {
				return err
			}
			env := conc.MakeEnv(stmt)
			env.PayloadType = "application/vnd.gittuf+json"
			var ks []*conc.Key
			for _, b := range a.By {
				ks = append(ks, conc.GetKey(r.seed, b))
			}
			env = conc.SignEnv(env, ks...)
			b, _ := json.Marshal(env)
			blob, _ := r.h.WriteBlob(b)
			path := "reference-authorizations/" + attestations.ReferenceAuthorizationPath(fullRef(a.Ref), fromID(a.From), r.tree(a.Tree).String())
			entries = append(entries, gitstore.TreeEntry{Path: path, ID: blob, Kind: gitstore.KindBlob})
		}
		var tree githash.Hash
		if len(entries) == 0 {
			tree, _ = r.h.EmptyTree()
		} else {
			tree, err = r.h.WriteTree(entries)
			if err != nil {
				return err
			}
		}
		var parents []githash.Hash
		if r.attTip != nil {
			parents = []githash.Hash{r.attTip}
		}
		target, err = r.s.MakeCommit(tree, parents, fmt.Sprintf("attestations at %d", pos), nil)
		if err != nil {
			return err
		}
		r.attTip = target
		r.s.RawSetRef(attestations.Ref, target)
		id, err = r.appendRSL(r.refEntryText("ref", attestations.Ref, target), "root")
	default:
		return fmt.Errorf("unknown entry kind %q", e.K)
	}
	if err != nil {
		return err
	}
	r.targets = append(r.targets, target)
	r.ids = append(r.ids, id)
	return nil
}

func (r *vRepo) posOfTarget(h githash.Hash) int {
	for p := len(r.targets) - 1; p >= 1; p-- {
		if r.targets[p] != nil && r.targets[p].Equal(h) {
			return p
		}
	}
	return 0
}

func (r *vRepo) verifyFull(ref string) (res vRes) {
	defer func() {
		if x := recover(); x != nil {
			res = vRes{Res: "panic", Msg: fmt.Sprint(x)}
		}
	}()
	has := false
	for p := 1; p < len(r.targets); p++ {
		_ = p
	}
	tip, err := policy.NewPolicyVerifier(r.s.Handle()).VerifyRefFull(context.Background(), fullRef(ref))
	_ = has
	cls := verifyErrClass(err)
	out := vRes{Res: cls}
	if err != nil {
		out.Msg = err.Error()
		return out
	}
	out.Tip = r.posOfTarget(tip)
	return out
}

func runVerifyScn(scn vScn, pols map[string]vPolicy, strip map[string]string, seed int64) (obs vObs, err error) {
	if scn.Fam == "global" && strip != nil {
		twin := vScn{Fam: "twin", Log: append([]vEntry{}, scn.Log...)}
		for i := range twin.Log {
			if twin.Log[i].K == "pol" {
				twin.Log[i].V = strip[twin.Log[i].V]
			}
		}
		to, err := runVerifyScn(twin, pols, nil, seed)
		if err != nil {
			return obs, err
		}
		obs.Twin = to.Full
	}
	r := newVRepo(seed, pols)
	for i, e := range scn.Log {
		if err := r.add(i+1, e); err != nil {
			return obs, fmt.Errorf("entry %d: %w", i+1, err)
		}
	}
	obs.Full = map[string]vRes{}
	for _, ref := range []string{"main", "feat"} {
		has := false
		for _, e := range scn.Log {
			if (e.K == "ref" || e.K == "prop") && e.Ref == ref {
				has = true
			}
		}
		if !has {
			obs.Full[ref] = vRes{Res: "none"}
			continue
		}
		obs.Full[ref] = r.verifyFull(ref)
	}
	return obs, nil
}

// Verify replays abstract logs against the real verifier.
func Verify(scnPath, polPath, outPath string, seed int64, limit int) error {
	scns, err := hx.ReadNDJSONInto[vScn](scnPath)
	if err != nil {
		return err
	}
	polRecs, err := hx.ReadNDJSONInto[struct {
		Pol   map[string]vPolicy `json:"pol"`
		Strip map[string]string  `json:"strip"`
	}](polPath)
	if err != nil || len(polRecs) == 0 {
		return fmt.Errorf("policy table: %v", err)
	}
	pols := polRecs[0].Pol
	if limit > 0 && len(scns) > limit {
		rg := hx.Rand(seed)
		rg.Shuffle(len(scns), func(i, j int) { scns[i], scns[j] = scns[j], scns[i] })
		scns = scns[:limit]
	}
	wr, err := hx.NewWriter(outPath)
	if err != nil {
		return err
	}
	defer wr.Close()
	type line struct {
		ID  int    `json:"id"`
		Scn vScn   `json:"scn"`
		Obs vObs   `json:"obs"`
		Err string `json:"err"`
	}
	out := make([]line, len(scns))
	parallel(len(scns), func(i int) {
		o, err := runVerifyScn(scns[i], pols, polRecs[0].Strip, seed)
		l := line{ID: i + 1, Scn: scns[i], Obs: o}
		if err != nil {
			l.Err = err.Error()
			l.Obs.Full = map[string]vRes{}
		}
		out[i] = l
	})
	for _, l := range out {
		wr.Write(l)
	}
	return nil
}
