package fam

import (
	"context"
	"fmt"
	"time"

	"github.com/gittuf/gittuf/internal/attestations"
	"github.com/gittuf/gittuf/internal/policy"
	"github.com/gittuf/gittuf/pkg/githash"
	"github.com/gittuf/gittuf/pkg/rsl"
	"github.com/gittuf/gittuf/verifharness/conc"
	"github.com/gittuf/gittuf/verifharness/hx"
	"github.com/gittuf/gittuf/verifharness/memstore"
	"github.com/gittuf/gittuf/verifharness/proj"
)

// ---- C16: storage faults and crashes at every call index -------------------

type fEntry struct {
	K   string `json:"k"`
	Ref string `json:"ref"`
	Num int    `json:"num"`
	NP  int    `json:"np"`
}

// fState is the abstract repository state: the log and, per managed ref,
// st: 0 absent / 1 equals the target of its latest log entry / 2 otherwise;
// id: the tip (for "unchanged" comparisons).
type fState struct {
	Chain []fEntry          `json:"chain"`
	St    map[string]int    `json:"st"`
	ID    map[string]string `json:"id"`
}

var managedRefs = []string{"refs/gittuf/policy", "refs/gittuf/policy-staging", "refs/gittuf/attestations"}

func projectF(s *memstore.Store) fState {
	st := fState{Chain: []fEntry{}, St: map[string]int{}, ID: map[string]string{}}
	entries, err := proj.WalkRSL(s)
	if err != nil {
		st.Chain = append(st.Chain, fEntry{K: "unreadable"})
		return st
	}
	latest := map[string]string{}
	for _, e := range entries {
		st.Chain = append(st.Chain, fEntry{K: e.K, Ref: e.Ref, Num: e.Num, NP: e.NParents})
		if e.K == "ref" || e.K == "prop" {
			latest[e.Ref] = e.Target
		}
	}
	for _, r := range managedRefs {
		tip := s.RawRef(r)
		switch {
		case tip == nil && latest[r] == "":
			st.St[r], st.ID[r] = 0, ""
		case tip == nil:
			st.St[r], st.ID[r] = 2, ""
		case tip.String() == latest[r]:
			st.St[r], st.ID[r] = 1, tip.String()
		default:
			st.St[r], st.ID[r] = 2, tip.String()
		}
	}
	return st
}

type fWorld struct {
	s    *memstore.Store
	root *policy.State
	seed int64
}

func (w *fWorld) op(name string, h *memstore.Handle) error {
	ctx := context.Background()
	switch name {
	case "ref":
		return rsl.NewReferenceEntry("refs/heads/main", conc.FakeHash("fault-target")).Commit(h, false)
	case "ann":
		ents, _ := proj.WalkRSL(h.S)
		for _, e := range ents {
			if e.K == "ref" && e.Ref == "refs/heads/main" {
				return rsl.NewAnnotationEntry([]githash.Hash{mustHash(e.ID)}, true, "revoke").Commit(h, false)
			}
		}
		return fmt.Errorf("no entry to annotate")
	case "stage":
		st := &policy.State{Metadata: w.root.Metadata}
		return st.Commit(h, "stage", true, false)
	case "att":
		return (&attestations.Attestations{}).Commit(h, "att", true, false)
	case "apply":
		return policy.Apply(ctx, h, false)
	case "reconcile":
		return policy.ReconcileStaging(h, false)
	}
	return fmt.Errorf("unknown op %s", name)
}

func must(err error) {
	if err != nil {
		panic(err)
	}
}

// build constructs a start state.
func buildStart(name string, seed int64) *fWorld {
	w := &fWorld{s: memstore.New(), seed: seed}
	root, err := conc.MinimalPolicyState(conc.GetKey(seed, "root"))
	must(err)
	w.root = root
	h := w.s.Handle()
	ctx := context.Background()
	rec := func(ref, label string) {
		must(rsl.NewReferenceEntry(ref, conc.FakeHash(label)).Commit(h, false))
	}
	switch name {
	case "empty":
	case "first":
		rec("refs/heads/main", "m1")
		rec("refs/heads/main", "m2")
	case "emptystaged":
		must(w.op("stage", h))
	case "established", "staged", "polahead":
		must(w.op("stage", h))
		must(policy.Apply(ctx, h, false))
		must(w.op("att", h))
		rec("refs/heads/main", "m1")
		if name == "staged" {
			must(w.op("stage", h))
		}
		if name == "polahead" {
			// a change lands directly in the policy ref (as controller propagation does)
			tip := w.s.RawRef("refs/gittuf/policy")
			ci, err := w.s.CommitInfo(tip)
			must(err)
			id, err := w.s.MakeCommit(ci.Tree, []githash.Hash{tip}, "propagated into policy", nil)
			must(err)
			w.s.RawSetRef("refs/gittuf/policy", id)
			must(rsl.NewReferenceEntry("refs/gittuf/policy", id).Commit(h, false))
		}
	default:
		panic("unknown start " + name)
	}
	return w
}

type fCall struct {
	N          int    `json:"n"`
	Method     string `json:"method"`
	Arg        string `json:"arg"`
	MutsBefore int    `json:"mutsBefore"` // reference mutations completed before this call
	IsMut      bool   `json:"isMut"`      // this call itself mutates a reference
}

func isRefMutation(method string) bool {
	switch method {
	case "Commit", "CommitUsingSpecificKey", "SetReference", "DeleteReference", "ResetDueToError":
		return true
	}
	return false
}

type fLine struct {
	ID    int    `json:"id"`
	Op    string `json:"op"`
	Start string `json:"start"`
	Kind  string `json:"kind"` // clean | fault | crash
	Call  fCall  `json:"call"`
	Pre   fState `json:"pre"`
	Post  fState `json:"post"`
	Err   bool   `json:"err"`
	// after the fault clears, the operation is repeated
	RetryErr bool   `json:"retryErr"`
	Retry    fState `json:"retry"`
	Clean    fState `json:"clean"`
	CleanErr bool   `json:"cleanErr"`
	Msg      string `json:"msg,omitempty"`
}

var faultMatrix = [][2]string{
	{"ref", "empty"}, {"ref", "first"}, {"ref", "established"},
	{"ann", "first"}, {"ann", "established"},
	{"stage", "empty"}, {"stage", "first"}, {"stage", "established"},
	{"att", "empty"}, {"att", "first"}, {"att", "established"},
	{"apply", "emptystaged"}, {"apply", "staged"}, {"apply", "established"},
	{"reconcile", "polahead"}, {"apply", "polahead"},
}

// Faults enumerates every call index of every (operation, start state).
func Faults(outPath string, seed int64) error {
	wr, err := hx.NewWriter(outPath)
	if err != nil {
		return err
	}
	defer wr.Close()
	id := 0
	for _, m := range faultMatrix {
		opName, start := m[0], m[1]
		// run 0: uninterrupted
		w0 := buildStart(start, seed)
		pre := projectF(w0.s)
		h0 := w0.s.Handle()
		cleanErr := w0.op(opName, h0)
		clean := projectF(w0.s)
		calls := h0.Log
		// call info is taken from each run's own log: the process-wide entry cache of
		// pkg/rsl makes later runs shorter than the first one
		infoAt := func(log []memstore.Call, k int) fCall {
			muts := 0
			for _, c := range log {
				if c.N == k {
					return fCall{N: c.N, Method: c.Method, Arg: c.Arg, MutsBefore: muts, IsMut: isRefMutation(c.Method)}
				}
				if isRefMutation(c.Method) {
					muts++
				}
			}
			return fCall{N: k, Method: "none", MutsBefore: muts}
		}
		id++
		wr.Write(fLine{ID: id, Op: opName, Start: start, Kind: "clean", Pre: pre, Post: clean, Err: cleanErr != nil, Retry: clean, Clean: clean, CleanErr: cleanErr != nil})
		for k := 1; k <= len(calls); k++ {
			// ---- fault at call k
			w := buildStart(start, seed)
			h := w.s.Handle()
			h.Inter = func(c memstore.Call) error {
				if c.N == k {
					return memstore.ErrInjected
				}
				return nil
			}
			opErr := w.op(opName, h)
			if h.Calls() < k {
				break // the operation makes fewer than k calls
			}
			post := projectF(w.s)
			h2 := w.s.Handle() // fault cleared: a fresh handle
			retryErr := w.op(opName, h2)
			retry := projectF(w.s)
			id++
			line := fLine{ID: id, Op: opName, Start: start, Kind: "fault", Call: infoAt(h.Log, k), Pre: pre, Post: post, Err: opErr != nil,
				RetryErr: retryErr != nil, Retry: retry, Clean: clean, CleanErr: cleanErr != nil}
			if retryErr != nil {
				line.Msg = retryErr.Error()
			}
			wr.Write(line)

			// ---- crash immediately after call k: call k+1 never returns
			wc := buildStart(start, seed)
			hc := wc.s.Handle()
			parked := make(chan struct{}, 1)
			finished := make(chan error, 1)
			hc.Inter = func(c memstore.Call) error {
				if c.N == k+1 {
					parked <- struct{}{}
					select {} // the process is dead: nothing after call k runs, including deferred functions
				}
				return nil
			}
			hc.SplitCommit = nil
			go func() { finished <- wc.op(opName, hc) }()
			select {
			case <-parked:
			case <-finished:
			case <-time.After(30 * time.Second):
			}
			postc := projectF(wc.s)
			h3 := wc.s.Handle()
			retryErrC := wc.op(opName, h3)
			retryC := projectF(wc.s)
			id++
			cl := fLine{ID: id, Op: opName, Start: start, Kind: "crash", Call: infoAt(hc.Log, k), Pre: pre, Post: postc, Err: true,
				RetryErr: retryErrC != nil, Retry: retryC, Clean: clean, CleanErr: cleanErr != nil}
			if retryErrC != nil {
				cl.Msg = retryErrC.Error()
			}
			wr.Write(cl)
		}
	}
	return nil
}
