package fam

import (
	"context"
	"errors"
	"fmt"
	"sort"

	"github.com/gittuf/gittuf/internal/policy"
	sslibdsse "github.com/gittuf/gittuf/internal/third_party/go-securesystemslib/dsse"
	"github.com/gittuf/gittuf/pkg/githash"
	"github.com/gittuf/gittuf/verifharness/conc"
	"github.com/gittuf/gittuf/verifharness/hx"
	"github.com/gittuf/gittuf/verifharness/memstore"
)

// ---- C05: threshold counting of SignatureVerifier.Verify --------------------

type sigScn struct {
	Pr   []string      `json:"pr"`
	Keys hx.StrListMap `json:"keys"`
	Thr  int           `json:"thr"`
	Exh  bool          `json:"exh"`
	G    string        `json:"g"`
	Env  bool          `json:"env"`
	Sigs []string      `json:"sigs"`
	Junk bool          `json:"junk"`
	Nsig int           `json:"nsig"`
}

type sigObs struct {
	Res string   `json:"res"`
	Pr  []string `json:"pr"`
	Msg string   `json:"msg,omitempty"`
}

func verifierErrClass(err error) string {
	switch {
	case err == nil:
		return "ok"
	case errors.Is(err, policy.ErrVerifierConditionsUnmet):
		return "unmet"
	case errors.Is(err, policy.ErrInvalidVerifier):
		return "invalid"
	}
	return "error"
}

func runSigScn(scn sigScn, seed int64, variant int) (obs sigObs) {
	defer func() {
		if r := recover(); r != nil {
			obs = sigObs{Res: "panic", Pr: []string{}, Msg: fmt.Sprint(r)}
		}
	}()
	ctx := context.Background()
	ap := &conc.AbsPolicy{
		RootPr: []string{"root"}, RootThr: 1, RootSig: []string{"root"},
		TgtPr: []string{"root"}, TgtThr: 1,
		Targets: &conc.AbsFile{Sig: []string{"root"}, Rules: []conc.AbsRule{{Name: "r", Pats: []string{"git:refs/heads/main"}, Pr: scn.Pr, Thr: scn.Thr}}},
		Persons: map[string]conc.AbsPerson{},
	}
	for _, p := range scn.Pr {
		ap.Persons[p] = conc.AbsPerson{Keys: scn.Keys[p]}
	}
	md, _ := conc.BuildMetadata(ap, seed)
	s := memstore.New()
	h := s.Handle()
	st := &policy.State{Metadata: md}
	if err := st.Commit(h, "policy", false, false); err != nil {
		return sigObs{Res: "setup", Pr: []string{}, Msg: err.Error()}
	}
	state, err := policy.LoadStateFromCommit(h, s.RawRef(policy.PolicyStagingRef))
	if err != nil {
		return sigObs{Res: "setup", Pr: []string{}, Msg: err.Error()}
	}
	verifiers, err := state.FindVerifiersForPath("git:refs/heads/main")
	if err != nil {
		return sigObs{Res: "setup", Pr: []string{}, Msg: err.Error()}
	}
	if len(verifiers) != 1 || verifiers[0].Name() != "r" {
		return sigObs{Res: "setup", Pr: []string{}, Msg: fmt.Sprintf("unexpected verifiers: %d", len(verifiers))}
	}
	// the Git object
	gitID := githash.ZeroHash
	empty, _ := h.EmptyTree()
	switch scn.G {
	case "none":
		if variant%2 == 1 {
			gitID, _ = s.MakeCommit(empty, nil, "unsigned object", nil)
		}
	default:
		gitID, err = s.MakeCommit(empty, nil, "signed object", conc.GetKey(seed, scn.G).PEM)
		if err != nil {
			return sigObs{Res: "setup", Pr: []string{}, Msg: err.Error()}
		}
	}
	var env *sslibdsse.Envelope
	if scn.Env {
		env = conc.MakeEnv(map[string]any{"subject": "change under test", "v": variant})
		var ks []*conc.Key
		for _, k := range scn.Sigs {
			ks = append(ks, conc.GetKey(seed, k))
		}
		env = conc.SignEnv(env, ks...)
		if scn.Junk {
			// signatures that must never count: lifted from other content by a key that ALSO signed
			// validly (when there is one; else by a trusted key / an outsider), and a repeated block.
			// Their position relative to the valid ones alternates: junk first / junk last.
			lk := "kU"
			if len(scn.Sigs) > 0 {
				lk = scn.Sigs[(variant/2)%len(scn.Sigs)]
			} else if len(scn.Pr) > 0 && len(scn.Keys[scn.Pr[0]]) > 0 {
				lk = scn.Keys[scn.Pr[0]][0]
			}
			valid := append([]sslibdsse.Signature{}, env.Signatures...)
			env = conc.LiftSignature(env, conc.GetKey(seed, lk))
			lifted := env.Signatures[len(env.Signatures)-1]
			var extra sslibdsse.Signature
			if len(valid) > 0 {
				extra = valid[0]
			} else {
				env = conc.LiftSignature(env, conc.GetKey(seed, "kJ"))
				extra = env.Signatures[len(env.Signatures)-1]
			}
			if (variant+len(scn.Sigs)+scn.Thr)%2 == 0 {
				env.Signatures = append([]sslibdsse.Signature{lifted, extra}, valid...)
			} else {
				env.Signatures = append(valid, lifted, extra)
			}
		}
	}
	used, verr := verifiers[0].Verify(ctx, gitID, env)
	obs = sigObs{Res: verifierErrClass(verr), Pr: []string{}}
	if verr != nil {
		obs.Msg = verr.Error()
	}
	if used != nil {
		obs.Pr = used.Contents()
		sort.Strings(obs.Pr)
	}
	return obs
}

// Signatures replays verifier inputs.
func Signatures(scnPath, outPath string, seed int64, variants int) error {
	scns, err := hx.ReadNDJSONInto[sigScn](scnPath)
	if err != nil {
		return err
	}
	wr, err := hx.NewWriter(outPath)
	if err != nil {
		return err
	}
	defer wr.Close()
	if variants <= 0 {
		variants = 1
	}
	type line struct {
		ID  int    `json:"id"`
		Scn sigScn `json:"scn"`
		Obs sigObs `json:"obs"`
	}
	out := make([]line, len(scns)*variants)
	parallel(len(out), func(i int) {
		scn := scns[i/variants]
		// map iteration order inside gittuf supplies the `order` nondeterminism; variants re-run it
		out[i] = line{ID: i + 1, Scn: scn, Obs: runSigScn(scn, seed, i%variants)}
	})
	for _, l := range out {
		wr.Write(l)
	}
	return nil
}
