package fam

import (
	"encoding/json"
	"fmt"
	"sort"

	"github.com/gittuf/gittuf/internal/tuf"
	"github.com/gittuf/gittuf/internal/tuf/migrations"
	tufv01 "github.com/gittuf/gittuf/internal/tuf/v01"
	tufv02 "github.com/gittuf/gittuf/internal/tuf/v02"
	"github.com/gittuf/gittuf/verifharness/conc"
	"github.com/gittuf/gittuf/verifharness/hx"
)

// ---- C13: metadata edits, round trip, migration -------------------------------

type mEdit struct {
	Op     string   `json:"op"`
	Name   string   `json:"name"`
	Prl    []string `json:"prl"`
	Thr    int      `json:"thr"`
	Names  []string `json:"names"`
	P      string   `json:"p"`
	Kind   string   `json:"kind"`
	Stages []string `json:"stages"`
	Spec   string   `json:"spec"`
}

type mRule struct {
	Name string   `json:"name"`
	Pr   []string `json:"pr"`
	Thr  int      `json:"thr"`
}

type mFile struct {
	Pr    []string `json:"pr"`
	Rules []mRule  `json:"rules"`
	Err   string   `json:"err,omitempty"`
}

type mGlobal struct {
	Name string `json:"name"`
	Kind string `json:"kind"`
	Thr  int    `json:"thr"`
}

type mRoot struct {
	Pr      []string  `json:"pr"`
	RootIDs []string  `json:"rootIds"`
	RootThr int       `json:"rootThr"`
	TgtOn   bool      `json:"tgtOn"`
	TgtIDs  []string  `json:"tgtIds"`
	TgtThr  int       `json:"tgtThr"`
	Globals []mGlobal `json:"globals"`
	Pre     []string  `json:"pre"`
	Push    []string  `json:"push"`
	Ctl     bool      `json:"ctl"`
	CR      []string  `json:"cr"`
	NR      []string  `json:"nr"`
	PD      []mDir    `json:"pd"`
	Err     string    `json:"err,omitempty"`
}

type mDir struct {
	Name string `json:"name"`
	Spec string `json:"spec"`
}

type mStep struct {
	Ok     bool  `json:"ok"`
	File   mFile `json:"file"`
	FileRT mFile `json:"fileRT"` // after Marshal / Unmarshal
	FileMG mFile `json:"fileMG"` // v01 only: after migration to v02 (else = File)
	Root   mRoot `json:"root"`
	RootRT mRoot `json:"rootRT"`
	RootMG mRoot `json:"rootMG"`
}

type mScn struct {
	Which string  `json:"which"`
	Edits []mEdit `json:"edits"`
	V01   bool    `json:"v01"`
}

type mNames struct {
	seed int64
	ids  map[string]string // principal id -> abstract name
}

func (n *mNames) id(name string) string {
	switch name {
	case "":
		return ""
	case "p9":
		return "SHA256:this-principal-is-not-defined"
	}
	id := conc.GetKey(n.seed, name).KeyID
	n.ids[id] = name
	return id
}

func (n *mNames) name(id string) string {
	if nm, ok := n.ids[id]; ok {
		return nm
	}
	if id == "" {
		return ""
	}
	return "?" + id
}

func (n *mNames) names(ids []string) []string {
	out := []string{}
	for _, id := range ids {
		out = append(out, n.name(id))
	}
	sort.Strings(out)
	return out
}

func (n *mNames) projectFile(t tuf.TargetsMetadata) (f mFile) {
	defer func() {
		if r := recover(); r != nil {
			f = mFile{Pr: []string{}, Rules: []mRule{}, Err: fmt.Sprint("panic: ", r)}
		}
	}()
	f = mFile{Pr: []string{}, Rules: []mRule{}}
	for id := range t.GetPrincipals() {
		f.Pr = append(f.Pr, n.name(id))
	}
	sort.Strings(f.Pr)
	for _, r := range t.GetRules() {
		pr := []string{}
		if r.GetPrincipalIDs() != nil {
			pr = n.names(r.GetPrincipalIDs().Contents())
		}
		f.Rules = append(f.Rules, mRule{Name: r.ID(), Pr: pr, Thr: r.GetThreshold()})
	}
	return f
}

func (n *mNames) projectRoot(r tuf.RootMetadata) (m mRoot) {
	defer func() {
		if x := recover(); x != nil {
			m = mRoot{Err: fmt.Sprint("panic: ", x)}
		}
	}()
	m = mRoot{Pr: []string{}, RootIDs: []string{}, TgtIDs: []string{}, Globals: []mGlobal{}, Pre: []string{}, Push: []string{}, CR: []string{}, NR: []string{}, PD: []mDir{}}
	for _, d := range r.GetPropagationDirectives() {
		spec := "?"
		if d.GetUpstreamRepository() == "https://example.com/up" && d.GetUpstreamReference() == "refs/heads/main" && d.GetUpstreamPath() == "" &&
			d.GetDownstreamReference() == "refs/heads/main" {
			spec = d.GetDownstreamPath()
		}
		m.PD = append(m.PD, mDir{Name: d.GetName(), Spec: spec})
	}
	m.Ctl = r.IsController()
	for _, o := range r.GetControllerRepositories() {
		m.CR = append(m.CR, o.GetName())
	}
	for _, o := range r.GetNetworkRepositories() {
		m.NR = append(m.NR, o.GetName())
	}
	for id := range r.GetPrincipals() {
		m.Pr = append(m.Pr, n.name(id))
	}
	sort.Strings(m.Pr)
	if ps, err := r.GetRootPrincipals(); err == nil {
		for _, p := range ps {
			if p == nil {
				m.RootIDs = append(m.RootIDs, "?nil")
				continue
			}
			m.RootIDs = append(m.RootIDs, n.name(p.ID()))
		}
		sort.Strings(m.RootIDs)
	}
	m.RootThr, _ = r.GetRootThreshold()
	if ps, err := r.GetPrimaryRuleFilePrincipals(); err == nil {
		m.TgtOn = true
		for _, p := range ps {
			if p == nil {
				m.TgtIDs = append(m.TgtIDs, "?nil")
				continue
			}
			m.TgtIDs = append(m.TgtIDs, n.name(p.ID()))
		}
		sort.Strings(m.TgtIDs)
		m.TgtThr, _ = r.GetPrimaryRuleFileThreshold()
	}
	for _, g := range r.GetGlobalRules() {
		switch x := g.(type) {
		case tuf.GlobalRuleThreshold:
			m.Globals = append(m.Globals, mGlobal{Name: x.GetName(), Kind: "threshold", Thr: x.GetThreshold()})
		case tuf.GlobalRuleBlockForcePushes:
			m.Globals = append(m.Globals, mGlobal{Name: x.GetName(), Kind: "bfp"})
		default:
			m.Globals = append(m.Globals, mGlobal{Name: g.GetName(), Kind: "unknown"})
		}
	}
	for stage, dst := range map[tuf.HookStage]*[]string{tuf.HookStagePreCommit: &m.Pre, tuf.HookStagePrePush: &m.Push} {
		hs, err := r.GetHooks(stage)
		if err == nil {
			for _, h := range hs {
				*dst = append(*dst, h.ID())
			}
		}
	}
	return m
}

func stagesOf(ss []string) []tuf.HookStage {
	out := []tuf.HookStage{}
	for _, s := range ss {
		if s == "pre" {
			out = append(out, tuf.HookStagePreCommit)
		} else {
			out = append(out, tuf.HookStagePrePush)
		}
	}
	return out
}

func applyFileEdit(t tuf.TargetsMetadata, e mEdit, n *mNames) error {
	ids := func(names []string) []string {
		out := []string{}
		for _, x := range names {
			out = append(out, n.id(x))
		}
		return out
	}
	switch e.Op {
	case "AddRule":
		return t.AddRule(e.Name, ids(e.Prl), []string{"git:refs/heads/" + e.Name}, e.Thr)
	case "UpdateRule":
		return t.UpdateRule(e.Name, ids(e.Prl), []string{"git:refs/heads/" + e.Name, "file:" + e.Name + "/*"}, e.Thr)
	case "RemoveRule":
		return t.RemoveRule(e.Name)
	case "ReorderRules":
		return t.ReorderRules(e.Names)
	case "AddPrincipal":
		return t.AddPrincipal(conc.GetKey(n.seed, e.P).TufKey())
	case "RemovePrincipal":
		return t.RemovePrincipal(n.id(e.P))
	}
	return fmt.Errorf("unknown file edit %q", e.Op)
}

func applyRootEdit(r tuf.RootMetadata, e mEdit, n *mNames) error {
	principal := func(name string) tuf.Principal {
		n.id(name)
		if name == "p9" {
			// a principal object that nothing else defines
			return conc.GetKey(n.seed, "p9-key").TufKey()
		}
		return conc.GetKey(n.seed, name).TufKey()
	}
	pid := func(name string) string {
		if name == "p9" {
			k := conc.GetKey(n.seed, "p9-key")
			n.ids[k.KeyID] = "p9"
			return k.KeyID
		}
		return n.id(name)
	}
	switch e.Op {
	case "AddRootPrincipal":
		pid(e.P)
		return r.AddRootPrincipal(principal(e.P))
	case "DeleteRootPrincipal":
		return r.DeleteRootPrincipal(pid(e.P))
	case "AddPrimaryRuleFilePrincipal":
		pid(e.P)
		return r.AddPrimaryRuleFilePrincipal(principal(e.P))
	case "DeletePrimaryRuleFilePrincipal":
		return r.DeletePrimaryRuleFilePrincipal(pid(e.P))
	case "UpdateRootThreshold":
		return r.UpdateRootThreshold(e.Thr)
	case "UpdatePrimaryRuleFileThreshold":
		return r.UpdatePrimaryRuleFileThreshold(e.Thr)
	case "AddGlobalRule", "UpdateGlobalRule":
		var g tuf.GlobalRule
		if e.Kind == "threshold" {
			g = tufv02.NewGlobalRuleThreshold(e.Name, []string{"git:refs/heads/*"}, e.Thr)
		} else {
			b, err := tufv02.NewGlobalRuleBlockForcePushes(e.Name, []string{"git:refs/heads/main"})
			if err != nil {
				return err
			}
			g = b
		}
		if e.Op == "AddGlobalRule" {
			return r.AddGlobalRule(g)
		}
		return r.UpdateGlobalRule(g)
	case "DeleteGlobalRule":
		return r.DeleteGlobalRule(e.Name)
	case "AddHook":
		_, err := r.AddHook(stagesOf(e.Stages), e.Name, []string{n.id("p1")}, map[string]string{"sha256": "00"}, tuf.HookEnvironmentLua, 5)
		return err
	case "RemoveHook":
		return r.RemoveHook(stagesOf(e.Stages), e.Name)
	case "AddPropagationDirective", "UpdatePropagationDirective":
		var d tuf.PropagationDirective
		if _, isV01 := r.(*tufv01.RootMetadata); isV01 {
			d = tufv01.NewPropagationDirective(e.Name, "https://example.com/up", "refs/heads/main", "", "refs/heads/main", e.Spec)
		} else {
			d = tufv02.NewPropagationDirective(e.Name, "https://example.com/up", "refs/heads/main", "", "refs/heads/main", e.Spec)
		}
		if e.Op == "AddPropagationDirective" {
			return r.AddPropagationDirective(d)
		}
		return r.UpdatePropagationDirective(d)
	case "DeletePropagationDirective":
		return r.DeletePropagationDirective(e.Name)
	case "EnableController":
		return r.EnableController()
	case "DisableController":
		return r.DisableController()
	case "AddControllerRepository":
		return r.AddControllerRepository(e.Name, "https://example.com/"+e.Name, []tuf.Principal{conc.GetKey(n.seed, "repo-"+e.Name).TufKey()})
	case "AddNetworkRepository":
		return r.AddNetworkRepository(e.Name, "https://example.com/"+e.Name, []tuf.Principal{conc.GetKey(n.seed, "repo-"+e.Name).TufKey()})
	}
	return fmt.Errorf("unknown root edit %q", e.Op)
}

func runMetadataScn(scn mScn, seed int64) []mStep {
	n := &mNames{seed: seed, ids: map[string]string{}}
	var file tuf.TargetsMetadata
	var root tuf.RootMetadata
	if scn.V01 {
		file = tufv01.NewTargetsMetadata()
		rm := tufv01.NewRootMetadata()
		root = rm
	} else {
		file = tufv02.NewTargetsMetadata()
		root = tufv02.NewRootMetadata()
	}
	n.id("p1")
	n.id("p2")
	_ = root.AddRootPrincipal(conc.GetKey(seed, "p1").TufKey())
	reloadFile := func() tuf.TargetsMetadata {
		b, err := json.Marshal(file)
		if err != nil {
			return nil
		}
		if scn.V01 {
			t := &tufv01.TargetsMetadata{}
			if json.Unmarshal(b, t) != nil {
				return nil
			}
			return t
		}
		t := &tufv02.TargetsMetadata{}
		if json.Unmarshal(b, t) != nil {
			return nil
		}
		return t
	}
	reloadRoot := func() tuf.RootMetadata {
		b, err := json.Marshal(root)
		if err != nil {
			return nil
		}
		if scn.V01 {
			t := &tufv01.RootMetadata{}
			if json.Unmarshal(b, t) != nil {
				return nil
			}
			return t
		}
		t := &tufv02.RootMetadata{}
		if json.Unmarshal(b, t) != nil {
			return nil
		}
		return t
	}
	steps := []mStep{}
	for _, e := range scn.Edits {
		var err error
		func() {
			defer func() {
				if r := recover(); r != nil {
					err = fmt.Errorf("panic: %v", r)
				}
			}()
			if scn.Which == "file" {
				err = applyFileEdit(file, e, n)
			} else {
				err = applyRootEdit(root, e, n)
			}
		}()
		st := mStep{Ok: err == nil}
		st.File = n.projectFile(file)
		st.Root = n.projectRoot(root)
		if rf := reloadFile(); rf != nil {
			st.FileRT = n.projectFile(rf)
		} else {
			st.FileRT = mFile{Err: "reload failed"}
		}
		if rr := reloadRoot(); rr != nil {
			st.RootRT = n.projectRoot(rr)
		} else {
			st.RootRT = mRoot{Err: "reload failed"}
		}
		st.FileMG, st.RootMG = st.File, st.Root
		if scn.V01 {
			st.FileMG = n.projectFile(migrations.MigrateTargetsMetadataV01ToV02(file.(*tufv01.TargetsMetadata)))
			st.RootMG = n.projectRoot(migrations.MigrateRootMetadataV01ToV02(root.(*tufv01.RootMetadata)))
		}
		steps = append(steps, st)
	}
	return steps
}

// Metadata replays edit sequences on tufv02 and tufv01 objects.
func Metadata(scnPath, outPath string, seed int64) error {
	scns, err := hx.ReadNDJSONInto[mScn](scnPath)
	if err != nil {
		return err
	}
	wr, err := hx.NewWriter(outPath)
	if err != nil {
		return err
	}
	defer wr.Close()
	id := 0
	for _, scn := range scns {
		for _, v01 := range []bool{false, true} {
			scn.V01 = v01
			id++
			wr.Write(struct {
				ID    int     `json:"id"`
				Scn   mScn    `json:"scn"`
				Steps []mStep `json:"steps"`
			}{id, scn, runMetadataScn(scn, seed)})
		}
	}
	return nil
}
