// Command vh is the conformance harness: it replays TLC-generated scenarios
// against the real gittuf code and records what the code did as NDJSON traces.
package main

import (
	"flag"
	"fmt"
	"os"

	"github.com/gittuf/gittuf/verifharness/fam"
)

func main() {
	if len(os.Args) < 2 {
		fmt.Fprintln(os.Stderr, "usage: vh <family> [flags]")
		os.Exit(2)
	}
	fs := flag.NewFlagSet(os.Args[1], flag.ExitOnError)
	scn := fs.String("scn", "", "scenario NDJSON (from TLC)")
	out := fs.String("out", "trace.ndjson", "trace NDJSON to write")
	seed := fs.Int64("seed", 1, "seed")
	n := fs.Int("n", 0, "family specific count / budget")
	mode := fs.String("mode", "", "family specific mode")
	aux := fs.String("aux", "", "auxiliary input (e.g. policy table)")
	fs.Parse(os.Args[2:]) //nolint:errcheck
	var err error
	switch os.Args[1] {
	case "rslquery":
		err = fam.RSLQuery(*scn, *out, *seed, *n)
	case "propagation":
		err = fam.Propagation(*scn, *out, *seed, *n)
	case "reconcile":
		err = fam.Reconcile(*scn, *out, *seed, *n)
	case "hooksel":
		err = fam.HookSel(*scn, *out, *seed, *n)
	case "autoskip":
		err = fam.AutoSkip(*scn, *out, *seed, *n)
	case "trees":
		err = fam.Trees(*scn, *out, *seed, *n)
	case "policyapply":
		err = fam.PolicyApply(*scn, *out, *seed, *n)
	case "sandbox":
		err = fam.Sandbox(*scn, *out, *seed)
	case "metadata":
		err = fam.Metadata(*scn, *out, *seed)
	case "verifycache":
		err = fam.VerifyCache(*scn, *aux, *out, *seed, *n)
	case "verify":
		err = fam.Verify(*scn, *aux, *out, *seed, *n)
	case "delegations":
		err = fam.Delegations(*scn, *out, *seed, *n)
	case "signatures":
		err = fam.Signatures(*scn, *out, *seed, *n)
	case "faults":
		err = fam.Faults(*out, *seed)
	case "writers":
		if *mode == "real" {
			err = fam.WritersReal(*scn, *out, *seed, *n)
		} else {
			err = fam.Writers(*scn, *out, *seed, *n)
		}
	case "codec":
		switch *mode {
		case "parse":
			err = fam.CodecParse(*scn, *out, *seed, *n)
		case "record":
			err = fam.CodecRecord(*out, *seed)
		case "fuzz":
			err = fam.CodecFuzz(*out, *seed, *n)
		default:
			err = fmt.Errorf("codec: unknown mode %q", *mode)
		}
	default:
		err = fmt.Errorf("unknown family %q", os.Args[1])
	}
	if err != nil {
		fmt.Fprintln(os.Stderr, "vh:", err)
		os.Exit(2)
	}
}
