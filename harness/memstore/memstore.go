// Package memstore is an in-memory gitstore.Storer that keeps objects in Git's
// own byte format (blob / tree / commit / tag with real SHA-1 object ids), so
// that (a) gittuf's readers, parsers and signature verification run unchanged
// on top of it and (b) a store can be exported verbatim into a real on-disk Git
// repository and cross-checked through gitinterface.Repository.
//
// It also is the harness' observation and fault point: every Storer call is
// counted, can be made to fail (fault injection), to park forever (crash
// emulation) or to wait for a scheduler (gated interleavings).
package memstore

import (
	"bytes"
	"compress/zlib"
	"crypto/sha1" //nolint:gosec
	"errors"
	"fmt"
	"os"
	"path/filepath"
	"sort"
	"strings"
	"sync"

	"github.com/gittuf/gittuf/pkg/githash"
	"github.com/gittuf/gittuf/pkg/gitstore"
	"github.com/hiddeco/sshsig"
	"golang.org/x/crypto/ssh"
)

type Hash = githash.Hash

var (
	ErrInjected    = errors.New("memstore: injected storage fault")
	ErrNoObject    = errors.New("memstore: object not found")
	ErrNotCommit   = errors.New("memstore: object is not a commit")
	ErrRefMismatch = errors.New("memstore: reference changed concurrently (compare-and-set failed)")
)

type object struct {
	typ  string
	data []byte
}

// Commit is the decoded form of a commit object.
type Commit struct {
	Tree    Hash
	Parents []Hash
	Message string
	Sig     string // armored signature ("" when unsigned)
	Payload []byte // commit bytes without the gpgsig header
}

// Store is the shared object database + refs. Several handles (views with their
// own interceptors) may share one Store; this is how concurrent writers and
// "fresh handle after a crash" are modelled.
type Store struct {
	mu         sync.Mutex
	objects    map[string]*object
	refs       map[string]Hash
	commits    map[string]*Commit // decode cache
	Clock      int64              // committer timestamp, bumped per commit for uniqueness
	Config     map[gitstore.ConfigKey]string
	SigningKey []byte // key used by Commit(sign=true)
}

func New() *Store {
	return &Store{
		objects: map[string]*object{},
		refs:    map[string]Hash{},
		commits: map[string]*Commit{},
		Clock:   1700000000,
		Config: map[gitstore.ConfigKey]string{
			gitstore.ConfigUserName:  "Verif Harness",
			gitstore.ConfigUserEmail: "verif@example.com",
		},
	}
}

// Clone returns a deep copy (objects are immutable and shared).
func (s *Store) Clone() *Store {
	s.mu.Lock()
	defer s.mu.Unlock()
	n := New()
	for k, v := range s.objects {
		n.objects[k] = v
	}
	for k, v := range s.refs {
		n.refs[k] = v
	}
	for k, v := range s.commits {
		n.commits[k] = v
	}
	n.Clock = s.Clock
	n.SigningKey = s.SigningKey
	for k, v := range s.Config {
		n.Config[k] = v
	}
	return n
}

func hashObject(typ string, data []byte) Hash {
	h := sha1.New() //nolint:gosec
	fmt.Fprintf(h, "%s %d\x00", typ, len(data))
	h.Write(data)
	return Hash(h.Sum(nil))
}

func (s *Store) put(typ string, data []byte) Hash {
	id := hashObject(typ, data)
	s.mu.Lock()
	if _, ok := s.objects[id.String()]; !ok {
		s.objects[id.String()] = &object{typ: typ, data: append([]byte(nil), data...)}
	}
	s.mu.Unlock()
	return id
}

func (s *Store) get(id Hash) (*object, bool) {
	s.mu.Lock()
	defer s.mu.Unlock()
	o, ok := s.objects[id.String()]
	return o, ok
}

// PutRaw stores an arbitrary object (used by the adversary / tamper model).
func (s *Store) PutRaw(typ string, data []byte) Hash { return s.put(typ, data) }

// Refs returns a copy of all references.
func (s *Store) Refs() map[string]string {
	s.mu.Lock()
	defer s.mu.Unlock()
	out := map[string]string{}
	for k, v := range s.refs {
		out[k] = v.String()
	}
	return out
}

// RawRef reads a ref with no interception.
func (s *Store) RawRef(name string) Hash {
	s.mu.Lock()
	defer s.mu.Unlock()
	return s.refs[name]
}

// RawSetRef writes a ref with no interception (adversary / setup).
func (s *Store) RawSetRef(name string, id Hash) {
	s.mu.Lock()
	defer s.mu.Unlock()
	if id.IsZero() {
		delete(s.refs, name)
		return
	}
	s.refs[name] = id
}

// RawDeleteRef removes a ref with no interception.
func (s *Store) RawDeleteRef(name string) {
	s.mu.Lock()
	defer s.mu.Unlock()
	delete(s.refs, name)
}

// ImportFrom copies every object of other into s (refs are not touched).
func (s *Store) ImportFrom(other *Store) {
	other.mu.Lock()
	objs := make(map[string]*object, len(other.objects))
	for k, v := range other.objects {
		objs[k] = v
	}
	other.mu.Unlock()
	s.mu.Lock()
	defer s.mu.Unlock()
	for k, v := range objs {
		if _, ok := s.objects[k]; !ok {
			s.objects[k] = v
		}
	}
}

// ---- commit encoding -------------------------------------------------------

func (s *Store) encodeCommit(tree Hash, parents []Hash, message, sig string) ([]byte, []byte) {
	s.mu.Lock()
	s.Clock++
	ts := s.Clock
	name, email := s.Config[gitstore.ConfigUserName], s.Config[gitstore.ConfigUserEmail]
	s.mu.Unlock()
	var head bytes.Buffer
	fmt.Fprintf(&head, "tree %s\n", tree.String())
	for _, p := range parents {
		fmt.Fprintf(&head, "parent %s\n", p.String())
	}
	fmt.Fprintf(&head, "author %s <%s> %d +0000\n", name, email, ts)
	fmt.Fprintf(&head, "committer %s <%s> %d +0000\n", name, email, ts)
	payload := append(append([]byte(nil), head.Bytes()...), []byte("\n"+message)...)
	return head.Bytes(), payload
}

func withSig(head []byte, message, sig string) []byte {
	var b bytes.Buffer
	b.Write(head)
	if sig != "" {
		lines := strings.Split(strings.TrimSuffix(sig, "\n"), "\n")
		b.WriteString("gpgsig " + lines[0] + "\n")
		for _, l := range lines[1:] {
			b.WriteString(" " + l + "\n")
		}
	}
	b.WriteString("\n" + message)
	return b.Bytes()
}

// SignSSH signs a payload the way git does for ssh keys (namespace "git").
func SignSSH(payload, pemKey []byte) (string, error) {
	signer, err := ssh.ParsePrivateKey(pemKey)
	if err != nil {
		return "", err
	}
	sg, err := sshsig.Sign(bytes.NewReader(payload), signer, sshsig.HashSHA512, "git")
	if err != nil {
		return "", err
	}
	return string(sshsig.Armor(sg)), nil
}

// MakeCommit creates a commit object (no ref update). pemKey nil => unsigned.
// liftSigFrom, when non-empty, is an armored signature copied verbatim (a
// signature "lifted" from other content).
func (s *Store) MakeCommit(tree Hash, parents []Hash, message string, pemKey []byte) (Hash, error) {
	head, payload := s.encodeCommit(tree, parents, message, "")
	sig := ""
	if pemKey != nil {
		var err error
		sig, err = SignSSH(payload, pemKey)
		if err != nil {
			return nil, err
		}
	}
	return s.put("commit", withSig(head, message, sig)), nil
}

// MakeCommitWithSig creates a commit carrying an arbitrary signature string.
func (s *Store) MakeCommitWithSig(tree Hash, parents []Hash, message, sig string) Hash {
	head, _ := s.encodeCommit(tree, parents, message, "")
	return s.put("commit", withSig(head, message, sig))
}

// MakeCommitWithSigAt is MakeCommitWithSig with a fixed timestamp (stable object id).
func (s *Store) MakeCommitWithSigAt(tree Hash, parents []Hash, message, sig string, ts int64) (Hash, error) {
	s.mu.Lock()
	saved := s.Clock
	s.Clock = ts - 1
	s.mu.Unlock()
	head, _ := s.encodeCommit(tree, parents, message, "")
	s.mu.Lock()
	s.Clock = saved
	s.mu.Unlock()
	return s.put("commit", withSig(head, message, sig)), nil
}

// MakeTag creates an annotated tag object pointing at target (a commit).
func (s *Store) MakeTag(target Hash, name, message string, pemKey []byte) (Hash, error) {
	s.mu.Lock()
	s.Clock++
	ts := s.Clock
	uname, email := s.Config[gitstore.ConfigUserName], s.Config[gitstore.ConfigUserEmail]
	s.mu.Unlock()
	var b bytes.Buffer
	fmt.Fprintf(&b, "object %s\ntype commit\ntag %s\ntagger %s <%s> %d +0000\n\n%s", target.String(), name, uname, email, ts, message)
	if !strings.HasSuffix(message, "\n") {
		b.WriteString("\n")
	}
	payload := append([]byte(nil), b.Bytes()...)
	if pemKey != nil {
		sig, err := SignSSH(payload, pemKey)
		if err != nil {
			return nil, err
		}
		b.WriteString(sig)
	}
	return s.put("tag", b.Bytes()), nil
}

func (s *Store) decodeCommit(id Hash) (*Commit, error) {
	s.mu.Lock()
	if c, ok := s.commits[id.String()]; ok {
		s.mu.Unlock()
		return c, nil
	}
	o, ok := s.objects[id.String()]
	s.mu.Unlock()
	if !ok {
		return nil, fmt.Errorf("%w: %s", ErrNoObject, id.String())
	}
	if o.typ != "commit" {
		return nil, fmt.Errorf("%w: %s is a %s", ErrNotCommit, id.String(), o.typ)
	}
	c := &Commit{}
	idx := bytes.Index(o.data, []byte("\n\n"))
	var headers, msg []byte
	if idx < 0 {
		headers, msg = o.data, nil
	} else {
		headers, msg = o.data[:idx+1], o.data[idx+2:]
	}
	var payload bytes.Buffer
	var sig []string
	inSig := false
	for _, line := range strings.SplitAfter(string(headers), "\n") {
		if line == "" {
			continue
		}
		l := strings.TrimSuffix(line, "\n")
		if inSig && strings.HasPrefix(l, " ") {
			sig = append(sig, l[1:])
			continue
		}
		inSig = false
		switch {
		case strings.HasPrefix(l, "gpgsig "):
			inSig = true
			sig = append(sig, strings.TrimPrefix(l, "gpgsig "))
			continue
		case strings.HasPrefix(l, "tree "):
			h, err := githash.NewHash(strings.TrimPrefix(l, "tree "))
			if err != nil {
				return nil, err
			}
			c.Tree = h
		case strings.HasPrefix(l, "parent "):
			h, err := githash.NewHash(strings.TrimPrefix(l, "parent "))
			if err != nil {
				return nil, err
			}
			c.Parents = append(c.Parents, h)
		}
		payload.WriteString(line)
	}
	payload.WriteString("\n")
	payload.Write(msg)
	c.Message = string(msg)
	c.Payload = payload.Bytes()
	if len(sig) > 0 {
		c.Sig = strings.Join(sig, "\n") + "\n"
	}
	s.mu.Lock()
	s.commits[id.String()] = c
	s.mu.Unlock()
	return c, nil
}

// CommitInfo exposes decoded commits to the independent walker.
func (s *Store) CommitInfo(id Hash) (*Commit, error) { return s.decodeCommit(id) }

// ObjectType returns the stored type of id ("" when missing).
func (s *Store) ObjectType(id Hash) string {
	o, ok := s.get(id)
	if !ok {
		return ""
	}
	return o.typ
}

// ---- trees -----------------------------------------------------------------

type rawEntry struct {
	mode string
	name string
	id   Hash
}

func (s *Store) readTree(id Hash) ([]rawEntry, error) {
	o, ok := s.get(id)
	if !ok {
		return nil, fmt.Errorf("%w: tree %s", ErrNoObject, id.String())
	}
	if o.typ != "tree" {
		return nil, fmt.Errorf("memstore: %s is not a tree", id.String())
	}
	var out []rawEntry
	d := o.data
	for len(d) > 0 {
		sp := bytes.IndexByte(d, ' ')
		nul := bytes.IndexByte(d, 0)
		if sp < 0 || nul < 0 || len(d) < nul+21 {
			return nil, fmt.Errorf("memstore: corrupt tree %s", id.String())
		}
		out = append(out, rawEntry{mode: string(d[:sp]), name: string(d[sp+1 : nul]), id: Hash(append([]byte(nil), d[nul+1:nul+21]...))})
		d = d[nul+21:]
	}
	return out, nil
}

func (s *Store) writeRawTree(entries []rawEntry) Hash {
	sort.Slice(entries, func(i, j int) bool {
		a, b := entries[i].name, entries[j].name
		if entries[i].mode == "40000" {
			a += "/"
		}
		if entries[j].mode == "40000" {
			b += "/"
		}
		return a < b
	})
	var buf bytes.Buffer
	for _, e := range entries {
		fmt.Fprintf(&buf, "%s %s\x00", e.mode, e.name)
		buf.Write(e.id)
	}
	return s.put("tree", buf.Bytes())
}

type treeNode struct {
	blob     Hash
	mode     string
	subtree  Hash // grafted existing subtree
	children map[string]*treeNode
}

func (s *Store) buildTree(n *treeNode) (Hash, error) {
	var entries []rawEntry
	names := make([]string, 0, len(n.children))
	for k := range n.children {
		names = append(names, k)
	}
	sort.Strings(names)
	for _, name := range names {
		c := n.children[name]
		switch {
		case c.children != nil:
			if c.subtree != nil {
				// merge grafted subtree contents with explicit children
				sub, err := s.readTree(c.subtree)
				if err != nil {
					return nil, err
				}
				for _, e := range sub {
					if _, exists := c.children[e.name]; exists {
						return nil, gitstore.ErrDuplicateTreePath
					}
					if e.mode == "40000" {
						c.children[e.name] = &treeNode{subtree: e.id}
					} else {
						c.children[e.name] = &treeNode{blob: e.id, mode: e.mode}
					}
				}
			}
			id, err := s.buildTree(c)
			if err != nil {
				return nil, err
			}
			entries = append(entries, rawEntry{mode: "40000", name: name, id: id})
		case c.subtree != nil:
			entries = append(entries, rawEntry{mode: "40000", name: name, id: c.subtree})
		default:
			mode := c.mode
			if mode == "" {
				mode = "100644"
			}
			entries = append(entries, rawEntry{mode: mode, name: name, id: c.blob})
		}
	}
	return s.writeRawTree(entries), nil
}

// WriteTreeModes is WriteTree with explicit file modes (path -> mode).
func (s *Store) WriteTreeModes(entries []gitstore.TreeEntry, modes map[string]string) (Hash, error) {
	root := &treeNode{children: map[string]*treeNode{}}
	seen := map[string]bool{}
	for _, e := range entries {
		if seen[e.Path] {
			return nil, gitstore.ErrDuplicateTreePath
		}
		seen[e.Path] = true
		parts := strings.Split(strings.Trim(e.Path, "/"), "/")
		cur := root
		for i, p := range parts {
			last := i == len(parts)-1
			child, ok := cur.children[p]
			if last {
				if ok {
					if e.Kind == gitstore.KindSubtree && child.children != nil && child.subtree == nil {
						child.subtree = e.ID
						break
					}
					return nil, gitstore.ErrDuplicateTreePath
				}
				if e.Kind == gitstore.KindSubtree {
					cur.children[p] = &treeNode{subtree: e.ID}
				} else {
					cur.children[p] = &treeNode{blob: e.ID, mode: modes[e.Path]}
				}
				break
			}
			if !ok {
				child = &treeNode{children: map[string]*treeNode{}}
				cur.children[p] = child
			} else if child.children == nil {
				if child.subtree == nil {
					return nil, gitstore.ErrDuplicateTreePath
				}
				child.children = map[string]*treeNode{}
			}
			cur = child
		}
	}
	return s.buildTree(root)
}

func (s *Store) flatten(id Hash, prefix string, out map[string]Hash, modes map[string]string) error {
	es, err := s.readTree(id)
	if err != nil {
		return err
	}
	for _, e := range es {
		p := prefix + e.name
		if e.mode == "40000" {
			if err := s.flatten(e.id, p+"/", out, modes); err != nil {
				return err
			}
			continue
		}
		out[p] = e.id
		if modes != nil {
			modes[p] = e.mode
		}
	}
	return nil
}

// Flatten returns path->blob and path->mode of a tree.
func (s *Store) Flatten(id Hash) (map[string]Hash, map[string]string, error) {
	out, modes := map[string]Hash{}, map[string]string{}
	return out, modes, s.flatten(id, "", out, modes)
}

// ---- history helpers -------------------------------------------------------

func (s *Store) ancestors(id Hash) (map[string]bool, error) {
	seen := map[string]bool{}
	stack := []Hash{id}
	for len(stack) > 0 {
		c := stack[len(stack)-1]
		stack = stack[:len(stack)-1]
		if seen[c.String()] {
			continue
		}
		seen[c.String()] = true
		ci, err := s.decodeCommit(c)
		if err != nil {
			return nil, err
		}
		stack = append(stack, ci.Parents...)
	}
	return seen, nil
}

// ---- export ----------------------------------------------------------------

// ExportTo writes every object as a loose object and every ref into the Git
// directory gitDir (which must already be initialised, e.g. `git init --bare`).
func (s *Store) ExportTo(gitDir string) error {
	s.mu.Lock()
	defer s.mu.Unlock()
	for id, o := range s.objects {
		dir := filepath.Join(gitDir, "objects", id[:2])
		if err := os.MkdirAll(dir, 0o755); err != nil {
			return err
		}
		p := filepath.Join(dir, id[2:])
		if _, err := os.Stat(p); err == nil {
			continue
		}
		var buf bytes.Buffer
		zw := zlib.NewWriter(&buf)
		fmt.Fprintf(zw, "%s %d\x00", o.typ, len(o.data))
		zw.Write(o.data) //nolint:errcheck
		zw.Close()
		if err := os.WriteFile(p, buf.Bytes(), 0o444); err != nil {
			return err
		}
	}
	for name, id := range s.refs {
		p := filepath.Join(gitDir, name)
		if err := os.MkdirAll(filepath.Dir(p), 0o755); err != nil {
			return err
		}
		if err := os.WriteFile(p, []byte(id.String()+"\n"), 0o644); err != nil {
			return err
		}
	}
	return nil
}
