package memstore

import (
	"errors"
	"fmt"
	"sort"
	"strings"
	"sync"

	"github.com/gittuf/gittuf/pkg/githash"
	"github.com/gittuf/gittuf/pkg/gitstore"
)

// Call describes one Storer call as seen by an interceptor.
type Call struct {
	N      int    // 1-based index of this call on this handle
	Method string // Storer method name
	Arg    string // first argument rendered (ref name / object id), for traces
	Writes bool   // whether the call mutates the store
}

// Interceptor is consulted before every Storer call. Returning a non-nil error
// makes the call fail with it without touching the store. It may block (gating
// / crash parking).
type Interceptor func(c Call) error

// Handle is one gitstore.Storer view over a Store.
type Handle struct {
	S *Store

	mu    sync.Mutex
	n     int
	Log   []Call
	Inter Interceptor
	// SplitCommit, when set, is called between the tip read and the
	// compare-and-set inside Commit / CommitUsingSpecificKey (mirrors the
	// verif Yield hook of the real gitinterface.Repository).
	SplitCommit func(ref string)
}

var _ gitstore.Storer = (*Handle)(nil)

func (s *Store) Handle() *Handle { return &Handle{S: s} }

func (h *Handle) enter(method, arg string, writes bool) error {
	h.mu.Lock()
	h.n++
	c := Call{N: h.n, Method: method, Arg: arg, Writes: writes}
	h.Log = append(h.Log, c)
	in := h.Inter
	h.mu.Unlock()
	if in != nil {
		return in(c)
	}
	return nil
}

// Calls returns the number of Storer calls made through this handle.
func (h *Handle) Calls() int {
	h.mu.Lock()
	defer h.mu.Unlock()
	return h.n
}

func (h *Handle) GetReference(refName string) (githash.Hash, error) {
	if err := h.enter("GetReference", refName, false); err != nil {
		return nil, err
	}
	id := h.S.RawRef(refName)
	if id == nil {
		return h.ZeroHash(), gitstore.ErrReferenceNotFound
	}
	return id, nil
}

func (h *Handle) SetReference(refName string, gitID githash.Hash) error {
	if err := h.enter("SetReference", refName, true); err != nil {
		return err
	}
	h.S.RawSetRef(refName, gitID)
	return nil
}

func (h *Handle) DeleteReference(refName string) error {
	if err := h.enter("DeleteReference", refName, true); err != nil {
		return err
	}
	if h.S.RawRef(refName) == nil {
		return fmt.Errorf("unable to delete Git reference '%s': %w", refName, gitstore.ErrReferenceNotFound)
	}
	h.S.RawSetRef(refName, nil)
	return nil
}

func (h *Handle) ReadBlob(blobID githash.Hash) ([]byte, error) {
	if err := h.enter("ReadBlob", blobID.String(), false); err != nil {
		return nil, err
	}
	o, ok := h.S.get(blobID)
	if !ok || o.typ != "blob" {
		return nil, fmt.Errorf("%w: blob %s", ErrNoObject, blobID.String())
	}
	return append([]byte(nil), o.data...), nil
}

func (h *Handle) WriteBlob(contents []byte) (githash.Hash, error) {
	if err := h.enter("WriteBlob", "", true); err != nil {
		return nil, err
	}
	return h.S.put("blob", contents), nil
}

func (h *Handle) EmptyTree() (githash.Hash, error) {
	if err := h.enter("EmptyTree", "", true); err != nil {
		return nil, err
	}
	return h.S.put("tree", nil), nil
}

func (h *Handle) WriteTree(entries []gitstore.TreeEntry) (githash.Hash, error) {
	if err := h.enter("WriteTree", "", true); err != nil {
		return nil, err
	}
	return h.S.WriteTreeModes(entries, nil)
}

func (h *Handle) GetAllFilesInTree(treeID githash.Hash) (map[string]githash.Hash, error) {
	if err := h.enter("GetAllFilesInTree", treeID.String(), false); err != nil {
		return nil, err
	}
	out, _, err := h.S.Flatten(treeID)
	return out, err
}

func (h *Handle) GetEntriesInTree(treeID githash.Hash) ([]gitstore.TreeEntry, error) {
	if err := h.enter("GetEntriesInTree", treeID.String(), false); err != nil {
		return nil, err
	}
	if treeID.IsZero() {
		return nil, fmt.Errorf("%w: zero tree", ErrNoObject)
	}
	es, err := h.S.readTree(treeID)
	if err != nil {
		return nil, err
	}
	out := make([]gitstore.TreeEntry, 0, len(es))
	for _, e := range es {
		k := gitstore.KindBlob
		if e.mode == "40000" {
			k = gitstore.KindSubtree
		}
		out = append(out, gitstore.TreeEntry{Path: e.name, ID: e.id, Kind: k})
	}
	return out, nil
}

func (h *Handle) GetPathIDInTree(treeID githash.Hash, treePath string) (githash.Hash, error) {
	if err := h.enter("GetPathIDInTree", treePath, false); err != nil {
		return nil, err
	}
	cur := treeID
	parts := strings.Split(strings.Trim(treePath, "/"), "/")
	for i, p := range parts {
		es, err := h.S.readTree(cur)
		if err != nil {
			return nil, err
		}
		found := false
		for _, e := range es {
			if e.name == p {
				if i < len(parts)-1 && e.mode != "40000" {
					return nil, fmt.Errorf("memstore: path '%s' not found in tree", treePath)
				}
				cur, found = e.id, true
				break
			}
		}
		if !found {
			return nil, fmt.Errorf("memstore: path '%s' not found in tree", treePath)
		}
	}
	return cur, nil
}

func (h *Handle) GetCommitTreeID(commitID githash.Hash) (githash.Hash, error) {
	if err := h.enter("GetCommitTreeID", commitID.String(), false); err != nil {
		return nil, err
	}
	c, err := h.S.decodeCommit(commitID)
	if err != nil {
		return h.ZeroHash(), err
	}
	return c.Tree, nil
}

func (h *Handle) GetCommitMessage(commitID githash.Hash) (string, error) {
	if err := h.enter("GetCommitMessage", commitID.String(), false); err != nil {
		return "", err
	}
	c, err := h.S.decodeCommit(commitID)
	if err != nil {
		return "", err
	}
	return strings.TrimSpace(c.Message), nil
}

func (h *Handle) GetCommitParentIDs(commitID githash.Hash) ([]githash.Hash, error) {
	if err := h.enter("GetCommitParentIDs", commitID.String(), false); err != nil {
		return nil, err
	}
	c, err := h.S.decodeCommit(commitID)
	if err != nil {
		return nil, err
	}
	if len(c.Parents) == 0 {
		return nil, nil
	}
	return append([]githash.Hash(nil), c.Parents...), nil
}

func (h *Handle) GetCommitsBetweenRange(commitNewID, commitOldID githash.Hash) ([]githash.Hash, error) {
	if err := h.enter("GetCommitsBetweenRange", commitNewID.String(), false); err != nil {
		return nil, err
	}
	newSet, err := h.S.ancestors(commitNewID)
	if err != nil {
		return nil, err
	}
	if !commitOldID.IsZero() {
		oldSet, err := h.S.ancestors(commitOldID)
		if err != nil {
			return nil, err
		}
		for k := range oldSet {
			delete(newSet, k)
		}
	}
	ids := make([]string, 0, len(newSet))
	for k := range newSet {
		ids = append(ids, k)
	}
	sort.Strings(ids)
	out := make([]githash.Hash, 0, len(ids))
	for _, k := range ids {
		hh, _ := githash.NewHash(k)
		out = append(out, hh)
	}
	return out, nil
}

func diffPaths(a, b map[string]githash.Hash, am, bm map[string]string) []string {
	set := map[string]bool{}
	for p, id := range a {
		if o, ok := b[p]; !ok || !o.Equal(id) || am[p] != bm[p] {
			set[p] = true
		}
	}
	for p := range b {
		if _, ok := a[p]; !ok {
			set[p] = true
		}
	}
	out := make([]string, 0, len(set))
	for p := range set {
		out = append(out, p)
	}
	sort.Strings(out)
	return out
}

func (h *Handle) GetFilePathsChangedByCommit(commitID githash.Hash) ([]string, error) {
	if err := h.enter("GetFilePathsChangedByCommit", commitID.String(), false); err != nil {
		return nil, err
	}
	c, err := h.S.decodeCommit(commitID)
	if err != nil {
		return nil, err
	}
	files, modes, err := h.S.Flatten(c.Tree)
	if err != nil {
		return nil, err
	}
	if len(c.Parents) == 0 {
		out := make([]string, 0, len(files))
		for p := range files {
			out = append(out, p)
		}
		sort.Strings(out)
		return out, nil
	}
	parentFiles := func(p githash.Hash) (map[string]githash.Hash, map[string]string, error) {
		pc, err := h.S.decodeCommit(p)
		if err != nil {
			return nil, nil, err
		}
		return h.S.Flatten(pc.Tree)
	}
	if len(c.Parents) > 1 {
		lf, lm, err := parentFiles(c.Parents[len(c.Parents)-1])
		if err != nil {
			return nil, err
		}
		if len(diffPaths(lf, files, lm, modes)) == 0 {
			return nil, nil
		}
		set := map[string]bool{}
		for _, p := range c.Parents {
			pf, pm, err := parentFiles(p)
			if err != nil {
				return nil, err
			}
			for _, x := range diffPaths(pf, files, pm, modes) {
				set[x] = true
			}
		}
		out := make([]string, 0, len(set))
		for p := range set {
			out = append(out, p)
		}
		sort.Strings(out)
		return out, nil
	}
	pf, pm, err := parentFiles(c.Parents[0])
	if err != nil {
		return nil, err
	}
	d := diffPaths(pf, files, pm, modes)
	if len(d) == 0 {
		return nil, nil
	}
	return d, nil
}

func (h *Handle) KnowsCommit(commitID, ancestorID githash.Hash) (bool, error) {
	if err := h.enter("KnowsCommit", commitID.String(), false); err != nil {
		return false, err
	}
	if _, err := h.S.decodeCommit(ancestorID); err != nil {
		return false, err
	}
	anc, err := h.S.ancestors(commitID)
	if err != nil {
		return false, err
	}
	return anc[ancestorID.String()], nil
}

func (h *Handle) GetMergeTree(commitAID, commitBID githash.Hash) (githash.Hash, error) {
	if err := h.enter("GetMergeTree", commitBID.String(), false); err != nil {
		return nil, err
	}
	b, err := h.S.decodeCommit(commitBID)
	if err != nil {
		return h.ZeroHash(), err
	}
	if commitAID.IsZero() {
		return b.Tree, nil
	}
	a, err := h.S.decodeCommit(commitAID)
	if err != nil {
		return h.ZeroHash(), err
	}
	ancA, err := h.S.ancestors(commitAID)
	if err != nil {
		return nil, err
	}
	ancB, err := h.S.ancestors(commitBID)
	if err != nil {
		return nil, err
	}
	if ancB[commitAID.String()] {
		return b.Tree, nil
	}
	if ancA[commitBID.String()] {
		return a.Tree, nil
	}
	// three-way file level merge over a merge base (BFS from A, first common)
	var base githash.Hash
	queue := []githash.Hash{commitAID}
	seen := map[string]bool{}
	for len(queue) > 0 && base == nil {
		c := queue[0]
		queue = queue[1:]
		if seen[c.String()] {
			continue
		}
		seen[c.String()] = true
		if ancB[c.String()] {
			base = c
			break
		}
		ci, _ := h.S.decodeCommit(c)
		queue = append(queue, ci.Parents...)
	}
	baseFiles, baseModes := map[string]githash.Hash{}, map[string]string{}
	if base != nil {
		bc, _ := h.S.decodeCommit(base)
		baseFiles, baseModes, err = h.S.Flatten(bc.Tree)
		if err != nil {
			return nil, err
		}
	}
	af, am, err := h.S.Flatten(a.Tree)
	if err != nil {
		return nil, err
	}
	bf, bm, err := h.S.Flatten(b.Tree)
	if err != nil {
		return nil, err
	}
	paths := map[string]bool{}
	for p := range af {
		paths[p] = true
	}
	for p := range bf {
		paths[p] = true
	}
	for p := range baseFiles {
		paths[p] = true
	}
	var entries []gitstore.TreeEntry
	modes := map[string]string{}
	same := func(x, y githash.Hash) bool { return (x == nil && y == nil) || (x != nil && y != nil && x.Equal(y)) }
	for p := range paths {
		o, x, y := baseFiles[p], af[p], bf[p]
		var pick githash.Hash
		var mode string
		switch {
		case same(x, y):
			pick, mode = x, am[p]
		case same(o, x):
			pick, mode = y, bm[p]
		case same(o, y):
			pick, mode = x, am[p]
		default:
			return nil, fmt.Errorf("unable to compute merge tree: conflict at %q", p)
		}
		_ = baseModes
		if pick != nil {
			entries = append(entries, gitstore.TreeEntry{Path: p, ID: pick, Kind: gitstore.KindBlob})
			modes[p] = mode
		}
	}
	return h.S.WriteTreeModes(entries, modes)
}

func (h *Handle) GetTagTarget(tagID githash.Hash) (githash.Hash, error) {
	if err := h.enter("GetTagTarget", tagID.String(), false); err != nil {
		return nil, err
	}
	o, ok := h.S.get(tagID)
	if !ok || o.typ != "tag" {
		return h.ZeroHash(), fmt.Errorf("memstore: %s is not a tag object", tagID.String())
	}
	line := strings.SplitN(string(o.data), "\n", 2)[0]
	return githash.NewHash(strings.TrimPrefix(line, "object "))
}

var errNotCommitOrTag = errors.New("invalid object type, expected commit or tag for signature verification")

func (h *Handle) GetObjectSignature(objectID githash.Hash) ([]byte, []byte, error) {
	if err := h.enter("GetObjectSignature", objectID.String(), false); err != nil {
		return nil, nil, err
	}
	o, ok := h.S.get(objectID)
	if !ok {
		return nil, nil, errNotCommitOrTag
	}
	switch o.typ {
	case "commit":
		c, err := h.S.decodeCommit(objectID)
		if err != nil {
			return nil, nil, err
		}
		return c.Payload, []byte(c.Sig), nil
	case "tag":
		d := string(o.data)
		for _, marker := range []string{"-----BEGIN SSH SIGNATURE-----", "-----BEGIN PGP SIGNATURE-----"} {
			if i := strings.Index(d, marker); i >= 0 {
				return []byte(d[:i]), []byte(d[i:]), nil
			}
		}
		return o.data, nil, nil
	}
	return nil, nil, errNotCommitOrTag
}

func (h *Handle) commit(treeID githash.Hash, targetRef, message string, key []byte, method string) (githash.Hash, error) {
	if err := h.enter(method, targetRef, true); err != nil {
		return h.ZeroHash(), err
	}
	tip := h.S.RawRef(targetRef)
	if h.SplitCommit != nil {
		h.SplitCommit(targetRef)
	}
	var parents []githash.Hash
	if tip != nil {
		parents = []githash.Hash{tip}
	}
	// `git commit-tree -m` appends a newline to the message; go-git encoding
	// (specific key) does not. Readers trim, so only the bytes differ.
	msg := message
	if method == "Commit" {
		msg = message + "\n"
	}
	id, err := h.S.MakeCommit(treeID, parents, msg, key)
	if err != nil {
		return h.ZeroHash(), err
	}
	// compare-and-set
	h.S.mu.Lock()
	cur := h.S.refs[targetRef]
	okCas := (cur == nil && tip == nil) || (cur != nil && tip != nil && cur.Equal(tip))
	if okCas {
		h.S.refs[targetRef] = id
	}
	h.S.mu.Unlock()
	if !okCas {
		return id, fmt.Errorf("unable to set Git reference '%s' to '%s': %w", targetRef, id.String(), ErrRefMismatch)
	}
	return id, nil
}

// DefaultKey is the key used by Commit(sign=true) (stands for the user's
// configured signing key).
func (h *Handle) Commit(treeID githash.Hash, targetRef, message string, sign bool) (githash.Hash, error) {
	var key []byte
	if sign {
		key = h.S.signingKey()
		if key == nil {
			return h.ZeroHash(), errors.New("memstore: signing requested but no signing key configured")
		}
	}
	return h.commit(treeID, targetRef, message, key, "Commit")
}

func (h *Handle) CommitUsingSpecificKey(treeID githash.Hash, targetRef, message string, signingKeyPEMBytes []byte) (githash.Hash, error) {
	return h.commit(treeID, targetRef, message, signingKeyPEMBytes, "CommitUsingSpecificKey")
}

func (h *Handle) ZeroHash() githash.Hash { return githash.ZeroHash }

func (h *Handle) LookupConfig(key gitstore.ConfigKey) (string, bool, error) {
	if err := h.enter("LookupConfig", string(key), false); err != nil {
		return "", false, err
	}
	h.S.mu.Lock()
	defer h.S.mu.Unlock()
	v, ok := h.S.Config[key]
	return v, ok, nil
}

func (h *Handle) ResetDueToError(cause error, refName string, commitID githash.Hash) error {
	if err := h.enter("ResetDueToError", refName, true); err != nil {
		return fmt.Errorf("unable to reset %s to %s, caused by following error: %w", refName, commitID.String(), cause)
	}
	h.S.RawSetRef(refName, commitID)
	return cause
}

func (s *Store) SetSigningKey(pem []byte) { s.mu.Lock(); s.SigningKey = pem; s.mu.Unlock() }
func (s *Store) signingKey() []byte       { s.mu.Lock(); defer s.mu.Unlock(); return s.SigningKey }
