// Package conc concretises abstract scenario elements (principals, policies,
// commits, log entries) produced by the TLA+ specification into real keys,
// DSSE envelopes, TUF metadata and Git objects.
package conc

import (
	"bytes"
	"context"
	"crypto/ed25519"
	"crypto/sha256"
	"encoding/base64"
	"encoding/pem"
	"fmt"
	"sync"

	"github.com/gittuf/gittuf/internal/signerverifier/dsse"
	sslibdsse "github.com/gittuf/gittuf/internal/third_party/go-securesystemslib/dsse"
	tufv01 "github.com/gittuf/gittuf/internal/tuf/v01"
	"github.com/hiddeco/sshsig"
	"github.com/secure-systems-lab/go-securesystemslib/signerverifier"
	"golang.org/x/crypto/ssh"
)

// Key is a deterministic ed25519 SSH key pair derived from (seed, name).
type Key struct {
	Name   string
	PEM    []byte // OpenSSH private key, PEM encoded
	Pub    ssh.PublicKey
	KeyID  string
	SSLib  *signerverifier.SSLibKey
	signer ssh.Signer
}

var (
	keyMu    sync.Mutex
	keyCache = map[string]*Key{}
)

// GetKey returns the key for (seed, name), generating it on first use.
func GetKey(seed int64, name string) *Key {
	id := fmt.Sprintf("%d/%s", seed, name)
	keyMu.Lock()
	defer keyMu.Unlock()
	if k, ok := keyCache[id]; ok {
		return k
	}
	h := sha256.Sum256([]byte("verif-key-" + id))
	priv := ed25519.NewKeyFromSeed(h[:])
	blk, err := ssh.MarshalPrivateKey(priv, name)
	if err != nil {
		panic(err)
	}
	pemBytes := pem.EncodeToMemory(blk)
	signer, err := ssh.ParsePrivateKey(pemBytes)
	if err != nil {
		panic(err)
	}
	pub := signer.PublicKey()
	k := &Key{Name: name, PEM: pemBytes, Pub: pub, signer: signer, KeyID: ssh.FingerprintSHA256(pub)}
	k.SSLib = &signerverifier.SSLibKey{
		KeyID:   k.KeyID,
		KeyType: "ssh",
		Scheme:  pub.Type(),
		KeyVal:  signerverifier.KeyVal{Public: base64.StdEncoding.EncodeToString(pub.Marshal())},
	}
	keyCache[id] = k
	return k
}

// TufKey returns the key as a tuf principal (v01.Key == v02.Key).
func (k *Key) TufKey() *tufv01.Key { return tufv01.NewKeyFromSSLibKey(k.SSLib) }

// Sign implements the DSSE signer interface in-process (same armored sshsig
// format `ssh-keygen -Y sign -n git` produces; checked by selftest).
func (k *Key) Sign(_ context.Context, data []byte) ([]byte, error) {
	sg, err := sshsig.Sign(bytes.NewReader(data), k.signer, sshsig.HashSHA512, "git")
	if err != nil {
		return nil, err
	}
	return sshsig.Armor(sg), nil
}

func (k *Key) KeyID_() string           { return k.KeyID }
func (k *Key) Signer() sslibdsse.Signer { return keySigner{k} }

type keySigner struct{ k *Key }

func (s keySigner) Sign(ctx context.Context, data []byte) ([]byte, error) { return s.k.Sign(ctx, data) }
func (s keySigner) KeyID() (string, error)                                { return s.k.KeyID, nil }

// SignEnv signs env with every key in order (replacing an older signature by
// the same key, as gittuf's SignEnvelope does).
func SignEnv(env *sslibdsse.Envelope, keys ...*Key) *sslibdsse.Envelope {
	for _, k := range keys {
		var err error
		env, err = dsse.SignEnvelope(context.Background(), env, k.Signer())
		if err != nil {
			panic(err)
		}
	}
	return env
}

// LiftSignature appends to env a signature by key made over OTHER content
// (a real signature, but not over this envelope's payload).
func LiftSignature(env *sslibdsse.Envelope, k *Key) *sslibdsse.Envelope {
	sig, err := k.Sign(context.Background(), []byte("some other payload entirely"))
	if err != nil {
		panic(err)
	}
	env.Signatures = append(env.Signatures, sslibdsse.Signature{KeyID: k.KeyID, Sig: base64.StdEncoding.EncodeToString(sig)})
	return env
}

// MakeEnv wraps v in an unsigned gittuf DSSE envelope.
func MakeEnv(v any) *sslibdsse.Envelope {
	env, err := dsse.CreateEnvelope(v)
	if err != nil {
		panic(err)
	}
	return env
}

// TufKeyFromSSLib wraps an SSLib key as a tuf principal.
func TufKeyFromSSLib(k *signerverifier.SSLibKey) *tufv01.Key { return tufv01.NewKeyFromSSLibKey(k) }
