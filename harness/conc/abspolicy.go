package conc

import (
	"crypto/sha1" //nolint:gosec
	"encoding/hex"
	"fmt"
	"sort"

	"github.com/gittuf/gittuf/internal/common/set"
	"github.com/gittuf/gittuf/internal/policy"
	sslibdsse "github.com/gittuf/gittuf/internal/third_party/go-securesystemslib/dsse"
	"github.com/gittuf/gittuf/internal/tuf"
	tufv01 "github.com/gittuf/gittuf/internal/tuf/v01"
	tufv02 "github.com/gittuf/gittuf/internal/tuf/v02"
)

// AbsRule is one delegation rule of an abstract rule file.
type AbsRule struct {
	Name string   `json:"name"`
	Pats []string `json:"pats"`
	Pr   []string `json:"pr"`
	Thr  int      `json:"thr"`
	Term bool     `json:"term"`
}

// AbsFile is an abstract rule file (primary or delegated).
type AbsFile struct {
	Rules []AbsRule `json:"rules"`
	Sig   []string  `json:"sig"` // signer key names
	Ver   int       `json:"ver"`
	Extra []string  `json:"extra"` // additional principals defined in the file
}

// AbsGlobal is a global rule of the root.
type AbsGlobal struct {
	Name string   `json:"name"`
	Kind string   `json:"kind"` // "threshold" | "bfp"
	Pats []string `json:"pats"`
	Thr  int      `json:"thr"`
}

// AbsPerson is a principal with several keys and code-review identities.
type AbsPerson struct {
	Keys  []string          `json:"keys"`
	Ident map[string]string `json:"ident"`
}

// AbsApp is a GitHub app declaration of the root.
type AbsApp struct {
	Trusted bool     `json:"trusted"`
	Pr      []string `json:"pr"`
	Thr     int      `json:"thr"`
}

// AbsHook is a hook declared in the root.
type AbsHook struct {
	Name    string   `json:"name"`
	Stages  []string `json:"stages"` // "pre" (pre-commit) | "push" (pre-push)
	Pr      []string `json:"pr"`
	Script  string   `json:"script"`
	Timeout int      `json:"timeout"`
}

// GitBlobID is the SHA-1 object id Git gives a blob with this content.
func GitBlobID(content []byte) string {
	h := sha1.New() //nolint:gosec
	fmt.Fprintf(h, "blob %d\x00", len(content))
	h.Write(content)
	return hex.EncodeToString(h.Sum(nil))
}

// AbsPolicy is an abstract policy state.
type AbsPolicy struct {
	RootPr  []string             `json:"rootPr"`
	RootThr int                  `json:"rootThr"`
	RootVer int                  `json:"rootVer"`
	RootSig []string             `json:"rootSig"`
	TgtPr   []string             `json:"tgtPr"`
	TgtThr  int                  `json:"tgtThr"`
	Targets *AbsFile             `json:"targets"`
	Files   map[string]*AbsFile  `json:"files"`
	Globals []AbsGlobal          `json:"globals"`
	Persons map[string]AbsPerson `json:"persons"`
	Apps    map[string]AbsApp    `json:"apps"`
	Hooks   []AbsHook            `json:"hooks"`
	V01     bool                 `json:"v01"`
}

// World maps abstract principal / key names to concrete ones.
type World struct {
	Seed    int64
	Persons map[string]AbsPerson
}

// PrincipalID is the concrete id of abstract principal name.
func (w *World) PrincipalID(name string) string {
	if _, ok := w.Persons[name]; ok {
		return name
	}
	return GetKey(w.Seed, name).KeyID
}

// Principal builds the tuf principal for name (Person when declared so, else a Key).
func (w *World) Principal(name string) tuf.Principal {
	if p, ok := w.Persons[name]; ok {
		person := &tufv02.Person{PersonID: name, PublicKeys: map[string]*tufv02.Key{}, AssociatedIdentities: map[string]string{}}
		for _, k := range p.Keys {
			key := GetKey(w.Seed, k)
			person.PublicKeys[key.KeyID] = key.TufKey()
		}
		for app, id := range p.Ident {
			person.AssociatedIdentities[app] = id
		}
		return person
	}
	return GetKey(w.Seed, name).TufKey()
}

func (w *World) ids(names []string) *set.Set[string] {
	s := set.NewSet[string]()
	for _, n := range names {
		s.Add(w.PrincipalID(n))
	}
	return s
}

func (w *World) keys(names []string) []*Key {
	out := []*Key{}
	for _, n := range names {
		out = append(out, GetKey(w.Seed, n))
	}
	return out
}

func expires() string { return "2099-01-01T00:00:00Z" }

func (w *World) rootV02(p *AbsPolicy) *tufv02.RootMetadata {
	rm := tufv02.NewRootMetadata()
	rm.SetExpires(expires())
	if p.RootVer > 0 {
		rm.Version = uint64(p.RootVer)
	} else if p.RootVer < 0 {
		rm.Version = 0
	}
	rm.Principals = map[string]tuf.Principal{}
	rm.Roles = map[string]tufv02.Role{}
	add := func(names []string) {
		for _, n := range names {
			rm.Principals[w.PrincipalID(n)] = w.Principal(n)
		}
	}
	add(p.RootPr)
	rm.Roles[tuf.RootRoleName] = tufv02.Role{PrincipalIDs: w.ids(p.RootPr), Threshold: p.RootThr}
	if p.TgtPr != nil {
		add(p.TgtPr)
		rm.Roles[tuf.TargetsRoleName] = tufv02.Role{PrincipalIDs: w.ids(p.TgtPr), Threshold: p.TgtThr}
	}
	for _, g := range p.Globals {
		switch g.Kind {
		case "threshold":
			rm.GlobalRules = append(rm.GlobalRules, tufv02.NewGlobalRuleThreshold(g.Name, g.Pats, g.Thr))
		case "bfp":
			r, err := tufv02.NewGlobalRuleBlockForcePushes(g.Name, g.Pats)
			if err != nil {
				panic(err)
			}
			rm.GlobalRules = append(rm.GlobalRules, r)
		}
	}
	appNames := make([]string, 0, len(p.Apps))
	for name := range p.Apps {
		appNames = append(appNames, name)
	}
	sort.Strings(appNames)
	for _, name := range appNames {
		app := p.Apps[name]
		add(app.Pr)
		if rm.GitHubApps == nil {
			rm.GitHubApps = map[string]*tufv02.GitHubApp{}
		}
		rm.GitHubApps[name] = &tufv02.GitHubApp{Trusted: app.Trusted, PrincipalIDs: w.ids(app.Pr), Threshold: app.Thr}
	}
	for _, h := range p.Hooks {
		stages := []tuf.HookStage{}
		for _, st := range h.Stages {
			if st == "pre" {
				stages = append(stages, tuf.HookStagePreCommit)
			} else {
				stages = append(stages, tuf.HookStagePrePush)
			}
		}
		ids := []string{}
		for _, n := range h.Pr {
			ids = append(ids, w.PrincipalID(n))
		}
		if _, err := rm.AddHook(stages, h.Name, ids, map[string]string{"gitBlob": GitBlobID([]byte(h.Script))}, tuf.HookEnvironmentLua, h.Timeout); err != nil {
			panic(err)
		}
	}
	return rm
}

func (w *World) fileV02(f *AbsFile) *tufv02.TargetsMetadata {
	tm := tufv02.NewTargetsMetadata()
	tm.SetExpires(expires())
	if f.Ver > 0 {
		tm.Version = uint64(f.Ver)
	}
	tm.Delegations = &tufv02.Delegations{Principals: map[string]tuf.Principal{}, Roles: []*tufv02.Delegation{}}
	for _, n := range f.Extra {
		tm.Delegations.Principals[w.PrincipalID(n)] = w.Principal(n)
	}
	for _, r := range f.Rules {
		for _, n := range r.Pr {
			tm.Delegations.Principals[w.PrincipalID(n)] = w.Principal(n)
		}
		tm.Delegations.Roles = append(tm.Delegations.Roles, &tufv02.Delegation{
			Name: r.Name, Paths: r.Pats, Terminating: r.Term,
			Role: tufv02.Role{PrincipalIDs: w.ids(r.Pr), Threshold: r.Thr},
		})
	}
	tm.Delegations.Roles = append(tm.Delegations.Roles, tufv02.AllowRule())
	return tm
}

func (w *World) fileV01(f *AbsFile) *tufv01.TargetsMetadata {
	tm := tufv01.NewTargetsMetadata()
	tm.SetExpires(expires())
	if f.Ver > 0 {
		tm.Version = uint64(f.Ver)
	}
	tm.Delegations = &tufv01.Delegations{Keys: map[string]*tufv01.Key{}, Roles: []*tufv01.Delegation{}}
	for _, n := range f.Extra {
		tm.Delegations.Keys[w.PrincipalID(n)] = GetKey(w.Seed, n).TufKey()
	}
	for _, r := range f.Rules {
		for _, n := range r.Pr {
			tm.Delegations.Keys[w.PrincipalID(n)] = GetKey(w.Seed, n).TufKey()
		}
		tm.Delegations.Roles = append(tm.Delegations.Roles, &tufv01.Delegation{
			Name: r.Name, Paths: r.Pats, Terminating: r.Term,
			Role: tufv01.Role{KeyIDs: w.ids(r.Pr), Threshold: r.Thr},
		})
	}
	tm.Delegations.Roles = append(tm.Delegations.Roles, tufv01.AllowRule())
	return tm
}

// BuildMetadata concretises an abstract policy into signed envelopes.
func BuildMetadata(p *AbsPolicy, seed int64) (*policy.StateMetadata, *World) {
	w := &World{Seed: seed, Persons: p.Persons}
	if w.Persons == nil {
		w.Persons = map[string]AbsPerson{}
	}
	md := &policy.StateMetadata{}
	var rootEnv *sslibdsse.Envelope
	if p.V01 {
		rm := tufv01.NewRootMetadata()
		rm.SetExpires(expires())
		if p.RootVer > 0 {
			rm.Version = uint64(p.RootVer)
		}
		rm.Keys = map[string]*tufv01.Key{}
		rm.Roles = map[string]tufv01.Role{}
		for _, n := range append(append([]string{}, p.RootPr...), p.TgtPr...) {
			rm.Keys[w.PrincipalID(n)] = GetKey(seed, n).TufKey()
		}
		rm.Roles[tuf.RootRoleName] = tufv01.Role{KeyIDs: w.ids(p.RootPr), Threshold: p.RootThr}
		if p.TgtPr != nil {
			rm.Roles[tuf.TargetsRoleName] = tufv01.Role{KeyIDs: w.ids(p.TgtPr), Threshold: p.TgtThr}
		}
		for _, g := range p.Globals {
			switch g.Kind {
			case "threshold":
				rm.GlobalRules = append(rm.GlobalRules, tufv01.NewGlobalRuleThreshold(g.Name, g.Pats, g.Thr))
			case "bfp":
				r, err := tufv01.NewGlobalRuleBlockForcePushes(g.Name, g.Pats)
				if err != nil {
					panic(err)
				}
				rm.GlobalRules = append(rm.GlobalRules, r)
			}
		}
		rootEnv = MakeEnv(rm)
	} else {
		rootEnv = MakeEnv(w.rootV02(p))
	}
	md.RootEnvelope = SignEnv(rootEnv, w.keys(p.RootSig)...)
	mk := func(f *AbsFile) *sslibdsse.Envelope {
		var env *sslibdsse.Envelope
		if p.V01 {
			env = MakeEnv(w.fileV01(f))
		} else {
			env = MakeEnv(w.fileV02(f))
		}
		return SignEnv(env, w.keys(f.Sig)...)
	}
	if p.Targets != nil {
		md.TargetsEnvelope = mk(p.Targets)
	}
	if len(p.Files) > 0 {
		md.DelegationEnvelopes = map[string]*sslibdsse.Envelope{}
		for name, f := range p.Files {
			md.DelegationEnvelopes[name] = mk(f)
		}
	}
	return md, w
}

// String helps debugging.
func (p *AbsPolicy) String() string { return fmt.Sprintf("%+v", *p) }
