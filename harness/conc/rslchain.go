package conc

import (
	"crypto/sha1" //nolint:gosec
	"fmt"
	"strings"

	"github.com/gittuf/gittuf/pkg/githash"
	"github.com/gittuf/gittuf/verifharness/memstore"
)

const RSLRef = "refs/gittuf/reference-state-log"

// AbsEntry is the abstract log entry of RSL.tla.
type AbsEntry struct {
	K    string `json:"k"`
	Ref  string `json:"ref"`
	T    int    `json:"t"`
	Up   string `json:"up"`
	Tg   []int  `json:"tg"`
	Skip bool   `json:"skip"`
	Num  int    `json:"num"`
	Xp   bool   `json:"xp"`
}

// FakeHash is a deterministic 40-hex id that names no object.
func FakeHash(label string) githash.Hash {
	h := sha1.Sum([]byte("verif-fake-" + label)) //nolint:gosec
	return githash.Hash(h[:])
}

// EntryText serialises an abstract entry independently of pkg/rsl.
func EntryText(e AbsEntry, target githash.Hash, ids []githash.Hash, upEntry githash.Hash, msg string) string {
	var lines []string
	switch e.K {
	case "ref":
		lines = []string{"RSL Reference Entry", "", "ref: " + e.Ref, "targetID: " + target.String()}
	case "prop":
		lines = []string{"RSL Propagation Entry", "", "ref: " + e.Ref, "targetID: " + target.String(),
			"upstreamRepository: " + e.Up, "upstreamEntryID: " + upEntry.String()}
	case "ann":
		lines = []string{"RSL Annotation Entry", ""}
		for _, id := range ids {
			lines = append(lines, "entryID: "+id.String())
		}
		lines = append(lines, fmt.Sprintf("skip: %v", e.Skip))
	default:
		return "this commit is not an RSL entry"
	}
	if e.Num > 0 {
		lines = append(lines, fmt.Sprintf("number: %d", e.Num))
	}
	if msg != "" {
		lines = append(lines, msg)
	}
	return strings.Join(lines, "\n")
}

// BuildChain writes the abstract chain into store s on the RSL ref, bypassing
// gittuf's writers (the adversary model).  keyFor(i) returns the signing key
// PEM for position i (nil = unsigned).  targetFor(i) maps the abstract target.
// It returns the commit id of each position (1-based: ids[0] unused).
func BuildChain(s *memstore.Store, chain []AbsEntry, keyFor func(i int) []byte, targetFor func(i int) githash.Hash) ([]githash.Hash, error) {
	h := s.Handle()
	empty, _ := h.EmptyTree()
	ids := make([]githash.Hash, len(chain)+1)
	var tip githash.Hash
	for i, e := range chain {
		pos := i + 1
		var tgIDs []githash.Hash
		for _, p := range e.Tg {
			if p >= 1 && p < pos {
				tgIDs = append(tgIDs, ids[p])
			} else {
				tgIDs = append(tgIDs, FakeHash(fmt.Sprintf("missing-entry-%d", p)))
			}
		}
		var target githash.Hash
		if targetFor != nil {
			target = targetFor(pos)
		}
		if target == nil {
			target = FakeHash(fmt.Sprintf("target-%d", e.T))
		}
		text := EntryText(e, target, tgIDs, FakeHash("upstream-entry"), "")
		var parents []githash.Hash
		if tip != nil {
			parents = append(parents, tip)
		}
		if e.Xp {
			// an extra parent: a side commit that is itself a plausible entry
			side, err := s.MakeCommit(empty, nil, "RSL Reference Entry\n\nref: refs/heads/side\ntargetID: "+FakeHash("side").String(), nil)
			if err != nil {
				return nil, err
			}
			parents = append(parents, side)
		}
		var key []byte
		if keyFor != nil {
			key = keyFor(pos)
		}
		id, err := s.MakeCommit(empty, parents, text, key)
		if err != nil {
			return nil, err
		}
		ids[pos] = id
		tip = id
	}
	if tip != nil {
		s.RawSetRef(RSLRef, tip)
	}
	return ids, nil
}
