package conc

import (
	"github.com/gittuf/gittuf/internal/policy"
)

// MinimalPolicyState is a policy state holding only a root of trust signed by
// rootKey (enough for State.Commit, which stages without verifying).
func MinimalPolicyState(rootKey *Key) (*policy.State, error) {
	rm, err := policy.InitializeRootMetadata(rootKey.TufKey())
	if err != nil {
		return nil, err
	}
	env := SignEnv(MakeEnv(rm), rootKey)
	return &policy.State{Metadata: &policy.StateMetadata{RootEnvelope: env}}, nil
}
