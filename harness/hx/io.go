// Package hx holds small shared helpers of the harness: NDJSON I/O, seeded
// randomness, error classification.
package hx

import (
	"bufio"
	"bytes"
	"encoding/json"
	"fmt"
	"math/rand"
	"os"
)

// ReadNDJSON decodes every line of path into a generic map.
func ReadNDJSON(path string) ([]map[string]any, error) {
	f, err := os.Open(path)
	if err != nil {
		return nil, err
	}
	defer f.Close()
	var out []map[string]any
	sc := bufio.NewScanner(f)
	sc.Buffer(make([]byte, 1<<20), 1<<28)
	for sc.Scan() {
		if len(sc.Bytes()) == 0 {
			continue
		}
		m := map[string]any{}
		if err := json.Unmarshal(sc.Bytes(), &m); err != nil {
			return nil, fmt.Errorf("%s: %w", path, err)
		}
		out = append(out, m)
	}
	return out, sc.Err()
}

// ReadNDJSONInto decodes every line of path into a new T.
func ReadNDJSONInto[T any](path string) ([]T, error) {
	f, err := os.Open(path)
	if err != nil {
		return nil, err
	}
	defer f.Close()
	var out []T
	sc := bufio.NewScanner(f)
	sc.Buffer(make([]byte, 1<<20), 1<<28)
	for sc.Scan() {
		if len(sc.Bytes()) == 0 {
			continue
		}
		var v T
		if err := json.Unmarshal(sc.Bytes(), &v); err != nil {
			return nil, fmt.Errorf("%s: %w", path, err)
		}
		out = append(out, v)
	}
	return out, sc.Err()
}

// Writer writes NDJSON lines.
type Writer struct {
	f *os.File
	w *bufio.Writer
	N int
}

func NewWriter(path string) (*Writer, error) {
	f, err := os.Create(path)
	if err != nil {
		return nil, err
	}
	return &Writer{f: f, w: bufio.NewWriterSize(f, 1<<20)}, nil
}

// denull replaces JSON nulls (nil slices / maps) by empty arrays: TLC's Json
// module has no null.
func denull(v any) any {
	switch x := v.(type) {
	case nil:
		return []any{}
	case map[string]any:
		for k, e := range x {
			x[k] = denull(e)
		}
		return x
	case []any:
		for i, e := range x {
			x[i] = denull(e)
		}
		return x
	}
	return v
}

func (w *Writer) Write(v any) {
	b, err := json.Marshal(v)
	if err != nil {
		panic(err)
	}
	if bytes.Contains(b, []byte("null")) {
		var g any
		dec := json.NewDecoder(bytes.NewReader(b))
		dec.UseNumber()
		if err := dec.Decode(&g); err != nil {
			panic(err)
		}
		b, err = json.Marshal(denull(g))
		if err != nil {
			panic(err)
		}
	}
	w.w.Write(b)
	w.w.WriteByte('\n')
	w.N++
}

func (w *Writer) Close() error {
	if err := w.w.Flush(); err != nil {
		return err
	}
	return w.f.Close()
}

func Rand(seed int64) *rand.Rand { return rand.New(rand.NewSource(seed)) }

// Ints converts a JSON array of numbers.
func Ints(v any) []int {
	a, _ := v.([]any)
	out := make([]int, 0, len(a))
	for _, x := range a {
		out = append(out, int(x.(float64)))
	}
	return out
}

// StrListMap is a JSON object of string lists that TLC renders as [] when empty.
type StrListMap map[string][]string

func (m *StrListMap) UnmarshalJSON(b []byte) error {
	*m = StrListMap{}
	if len(b) > 0 && b[0] == '[' {
		return nil
	}
	tmp := map[string][]string{}
	if err := json.Unmarshal(b, &tmp); err != nil {
		return err
	}
	*m = tmp
	return nil
}
