# source this: offline Go 1.26.0 toolchain + flags
export PATH=/root/go/pkg/mod/golang.org/toolchain@v0.0.1-go1.26.0.linux-amd64/bin:$PATH
export GOTOOLCHAIN=local GOFLAGS=-mod=mod GOPROXY=off GOSUMDB=off
