---- MODULE V ----
EXTENDS Naturals, Sequences, FiniteSets, TLC, Json, SequencesExt
CONSTANTS MaxLen, Dev
P == {"p1","p2","p3"}
Signers == P \cup {"kU","none"}
Refs == {"main","feat"}
Trees == 1..2
\* policy variants: who may write main (threshold 1)
Pol == [A |-> {"p1","p2"}, B |-> {"p2"}]
VARIABLES log
EntryAt(n) ==
     [k : {"ref"}, ref : Refs, s : Signers, tree : Trees]
     \cup [k : {"prop"}, ref : {"main"}, s : {"kU"}, tree : Trees]
     \cup [k : {"pol"}, v : {"A","B"}]
     \cup [k : {"ann"}, tgt : {t \in SUBSET (2..n) : Cardinality(t) \in 1..2}]
Init == log = << [k |-> "pol", v |-> "A"] >>
Next == /\ Len(log) < MaxLen
        /\ \E e \in EntryAt(Len(log)) :
              /\ (e.k = "ann" => \A i \in e.tgt : log[i].k = "ref")
              /\ log' = Append(log, e)

Skipped(l, i) == \E j \in (i+1)..Len(l) : l[j].k = "ann" /\ i \in l[j].tgt
PolAt(l, i) == LET js == {j \in 1..(i-1) : l[j].k = "pol"} IN l[CHOOSE j \in js : \A j2 \in js : j2 <= j].v
IsRefFor(l, i, r) == l[i].k \in {"ref","prop"} /\ l[i].ref = r
Auth(l, i) == l[i].k = "ref" /\ (l[i].ref = "feat" \/ l[i].s \in Pol[PolAt(l, i)])

\* ---- Layer D
UnrevokedRef(l, r) == {i \in 1..Len(l) : IsRefFor(l, i, r) /\ ~Skipped(l, i)}
DSound(l, r) == \A i \in UnrevokedRef(l, r) : Auth(l, i)

\* ---- Layer I : queue walk with recovery, as coded
RelIdx(l, r) == {i \in 1..Len(l) : IsRefFor(l, i, r) \/ l[i].k = "pol"}
Queue(l, r) == LET first == CHOOSE i \in RelIdx(l, r) : IsRefFor(l, i, r) /\ \A j \in RelIdx(l, r) : IsRefFor(l, j, r) => i <= j
               IN SetToSortSeq({i \in RelIdx(l, r) : i >= first}, <)
LastGood(l, r, i) == LET c == {j \in 1..(i-1) : l[j].k = "ref" /\ l[j].ref = r /\ ~Skipped(l, j)} IN
                     IF c = {} THEN 0 ELSE CHOOSE j \in c : \A j2 \in c : j2 <= j
RECURSIVE Walk(_, _, _)
RECURSIVE Recover(_, _, _, _, _, _, _)
Walk(l, r, q) ==
   IF q = <<>> THEN "ok" ELSE
   LET i == Head(q) IN
   CASE l[i].k = "pol" -> Walk(l, r, Tail(q))
     [] l[i].k = "prop" -> IF "PropNotVerified" \in Dev THEN Walk(l, r, Tail(q)) ELSE "fail"
     [] OTHER ->
         IF Auth(l, i) THEN Walk(l, r, Tail(q))
         ELSE IF ~Skipped(l, i) THEN "fail"
         ELSE IF Tail(q) = <<>> THEN "fail"
         ELSE LET g == LastGood(l, r, i) IN
              IF g = 0 THEN "notfound" ELSE Recover(l, r, Tail(q), l[g].tree, <<>>, FALSE, i)
Recover(l, r, q, goodTree, newq, badInter, inv) ==
   IF q = <<>> THEN "fail" ELSE
   LET j == Head(q) IN
   IF l[j].k = "pol" THEN Recover(l, r, Tail(q), goodTree, Append(newq, j), badInter, inv)
   ELSE IF l[j].k = "prop" THEN Recover(l, r, Tail(q), goodTree, Append(newq, j), badInter, inv)
   ELSE IF l[j].tree = goodTree /\ ~Skipped(l, j)
        THEN IF badInter THEN "notskipped"
             ELSE IF "FixNotVerified" \in Dev THEN Walk(l, r, newq \o Tail(q))
                  ELSE (IF Auth(l, j) THEN Walk(l, r, newq \o Tail(q)) ELSE "fail")
   ELSE Recover(l, r, Tail(q), goodTree, newq, badInter \/ ~Skipped(l, j), inv)
HasRef(l, r) == \E i \in 1..Len(l) : IsRefFor(l, i, r)
Impl(l, r) == IF HasRef(l, r) THEN Walk(l, r, Queue(l, r)) ELSE "none"
Sound == \A r \in Refs : Impl(log, r) = "ok" => DSound(log, r)
Emit == IF Len(log) = MaxLen /\ Impl(log, "main") # "none" THEN PrintT(<<"SCN", ToJson([log |-> log, impl |-> Impl(log, "main"), d |-> DSound(log, "main")])>>) ELSE TRUE
Spec == Init /\ [][Next]_log
====
