---- MODULE P ----
EXTENDS Naturals, Sequences, FiniteSets, TLC, Json, SequencesExt
CONSTANTS Refs, Keys, MaxLen
VARIABLES log, hist
Entry == [kind : {"ref"}, ref : Refs, key : Keys, tgt : 1..2]
    \cup [kind : {"ann"}, idx : 1..MaxLen, skip : BOOLEAN]
Init == log = <<>> /\ hist = <<>>
Record(e) == /\ Len(log) < MaxLen
             /\ (e.kind = "ann" => e.idx <= Len(log) /\ log[e.idx].kind = "ref")
             /\ log' = Append(log, e)
             /\ hist' = Append(hist, e)
Next == \E e \in Entry : Record(e)
RECURSIVE Count(_, _)
Count(l, r) == IF l = <<>> THEN 0 ELSE (IF Head(l).kind = "ref" /\ Head(l).ref = r THEN 1 ELSE 0) + Count(Tail(l), r)
Emit == IF Len(log) = MaxLen THEN PrintT(<<"SCN", ToJson([log |-> log, c |-> [r \in Refs |-> Count(log, r)]])>>) ELSE TRUE
Inv == \A r \in Refs : Count(log, r) <= MaxLen
Spec == Init /\ [][Next]_<<log, hist>>
====
