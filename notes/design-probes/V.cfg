SPECIFICATION Spec
CONSTANTS MaxLen = 6
 Dev = {}
INVARIANT Sound
CHECK_DEADLOCK FALSE
