SPECIFICATION Spec
CONSTANTS Refs = {"main", "feat"}
 Keys = {"a", "b", "x"}
 MaxLen = 4
INVARIANT Inv
CONSTRAINT Emit
CHECK_DEADLOCK FALSE
